package ref

import (
	"fmt"
	"strconv"
	"strings"
)

// Abstract document model (C06, C20): documents built from CommonMark's
// constructs, their HTML denotation under the CommonMark 0.30 mapping, and a
// nondeterministic serializer to CommonMark source whose every spelling has a
// meaning fixed by the spec text. See DESIGN.md, Appendix A.
//
// Nothing here calls the code under verification.

// Chooser supplies the generator's and the serializer's decisions.
type Chooser interface {
	Free(n int) int // scope-bounded: every alternative is explored
	Dev(n int) int  // deviation-bounded: 0 is the canonical spelling
}

type BKind int

const (
	BPara BKind = iota
	BATX
	BSetext
	BBreak
	BFenced
	BIndented
	BQuote
	BBullet
	BOrdered
	BHTML
	BRefDef
)

type Block struct {
	Kind  BKind
	Level int      // headings
	Inl   []Inl    // paragraph / heading content
	Info  string   // fenced code
	Lines []string // code / HTML block lines
	Kids  []*Block // quote children
	Items [][]*Block
	Tight bool
	Start int    // ordered lists
	Label string // refdef
	Dest  string
	Title string
	HasT  bool
}

type IKind int

const (
	IWord IKind = iota
	ISpace
	IPunct
	IEnt
	IEmph
	IStrong
	ICode
	ILink
	IRefFull
	IRefCollapsed
	IRefShortcut
	IImage
	IAuto
	IRaw
	IHard
	ISoft
)

type Inl struct {
	Kind  IKind
	Text  string // word, punct char, entity, code literal, autolink target, raw tag, reference label
	Kids  []Inl
	Dest  string
	Title string
	HasT  bool
}

// ---- denotation --------------------------------------------------------------

// Denote returns the HTML the CommonMark mapping assigns to the document, in
// the renderer's output conventions (tag spellings, escape spellings, attribute
// order; see the calibration log in DESIGN.md). defs holds the definitions of
// the document's reference labels by normalized label.
func Denote(blocks []*Block) string {
	defs := map[string]*Block{}
	collectDefs(blocks, defs)
	var sb strings.Builder
	denoteBlocks(&sb, blocks, false, defs)
	return sb.String()
}

func collectDefs(blocks []*Block, defs map[string]*Block) {
	for _, b := range blocks {
		switch b.Kind {
		case BRefDef:
			k, _ := NormLabel(b.Label)
			if _, dup := defs[k]; !dup {
				defs[k] = b
			}
		case BQuote:
			collectDefs(b.Kids, defs)
		case BBullet, BOrdered:
			for _, it := range b.Items {
				collectDefs(it, defs)
			}
		}
	}
}

func denoteBlocks(sb *strings.Builder, blocks []*Block, tight bool, defs map[string]*Block) {
	for _, b := range blocks {
		switch b.Kind {
		case BPara:
			if !tight {
				sb.WriteString("<p>")
			}
			denoteInl(sb, b.Inl, defs)
			if !tight {
				sb.WriteString("</p>")
			}
			sb.WriteString("\n")
		case BATX, BSetext:
			fmt.Fprintf(sb, "<h%d>", b.Level)
			denoteInl(sb, b.Inl, defs)
			fmt.Fprintf(sb, "</h%d>\n", b.Level)
		case BBreak:
			sb.WriteString("<hr>\n")
		case BFenced, BIndented:
			sb.WriteString("<pre><code")
			if f := strings.Fields(b.Info); b.Kind == BFenced && len(f) > 0 {
				sb.WriteString(` class="language-`)
				escAttr(sb, f[0])
				sb.WriteString(`"`)
			}
			sb.WriteString(">")
			for _, l := range b.Lines {
				escText(sb, l)
				sb.WriteString("\n")
			}
			sb.WriteString("</code></pre>\n")
		case BQuote:
			sb.WriteString("<blockquote>\n")
			denoteBlocks(sb, b.Kids, false, defs)
			sb.WriteString("</blockquote>\n")
		case BBullet, BOrdered:
			if b.Kind == BBullet {
				sb.WriteString("<ul>\n")
			} else if b.Start != 1 {
				fmt.Fprintf(sb, "<ol start=\"%d\">\n", b.Start)
			} else {
				sb.WriteString("<ol>\n")
			}
			for _, it := range b.Items {
				sb.WriteString("<li>")
				denoteBlocks(sb, it, b.Tight, defs)
				sb.WriteString("</li>\n")
			}
			if b.Kind == BBullet {
				sb.WriteString("</ul>\n")
			} else {
				sb.WriteString("</ol>\n")
			}
		case BHTML:
			sb.WriteString(strings.Join(b.Lines, "\n"))
			sb.WriteString("\n")
		case BRefDef:
		}
	}
}

func codeSpanContent(lit string) string {
	return strings.ReplaceAll(lit, "\n", " ")
}

func plainText(sb *strings.Builder, in []Inl) {
	for _, i := range in {
		switch i.Kind {
		case IWord, IPunct:
			escText(sb, i.Text)
		case ISpace, ISoft, IHard:
			sb.WriteString(" ")
		case IEnt:
			sb.WriteString(i.Text)
		case ICode:
			escText(sb, codeSpanContent(i.Text))
		default:
			plainText(sb, i.Kids)
		}
	}
}

func denoteInl(sb *strings.Builder, in []Inl, defs map[string]*Block) {
	for _, i := range in {
		switch i.Kind {
		case IWord, IPunct:
			escText(sb, i.Text)
		case ISpace:
			sb.WriteString(" ")
		case IEnt:
			sb.WriteString(i.Text) // the renderer copies character references through
		case IEmph:
			sb.WriteString("<em>")
			denoteInl(sb, i.Kids, defs)
			sb.WriteString("</em>")
		case IStrong:
			sb.WriteString("<strong>")
			denoteInl(sb, i.Kids, defs)
			sb.WriteString("</strong>")
		case ICode:
			sb.WriteString("<code>")
			escText(sb, codeSpanContent(i.Text))
			sb.WriteString("</code>")
		case ILink, IRefFull, IRefCollapsed, IRefShortcut, IImage:
			dest, title, hasT := i.Dest, i.Title, i.HasT
			if i.Kind == IRefFull || i.Kind == IRefCollapsed || i.Kind == IRefShortcut {
				k, _ := NormLabel(i.Text)
				d := defs[k]
				dest, title, hasT = d.Dest, d.Title, d.HasT
			}
			if i.Kind == IImage {
				sb.WriteString(`<img src="`)
			} else {
				sb.WriteString(`<a href="`)
			}
			escAttr(sb, NormURI(dest))
			sb.WriteString(`"`)
			if hasT {
				sb.WriteString(` title="`)
				escAttr(sb, title)
				sb.WriteString(`"`)
			}
			if i.Kind == IImage {
				sb.WriteString(` alt="`)
				plainText(sb, i.Kids)
				sb.WriteString(`">`)
			} else {
				sb.WriteString(">")
				if i.Kind == IRefCollapsed || i.Kind == IRefShortcut {
					escText(sb, i.Text) // the label is the link text
				} else {
					denoteInl(sb, i.Kids, defs)
				}
				sb.WriteString("</a>")
			}
		case IAuto:
			sb.WriteString(`<a href="`)
			if IsEmailAddress(i.Text) {
				sb.WriteString("mailto:")
			}
			escAttr(sb, NormURI(i.Text))
			sb.WriteString(`">`)
			escAttr(sb, i.Text)
			sb.WriteString("</a>")
		case IRaw:
			sb.WriteString(i.Text)
		case IHard:
			sb.WriteString("<br>\n")
		case ISoft:
			sb.WriteString("\n")
		}
	}
}

// ---- serializer ----------------------------------------------------------------

type lineRole int

const (
	roleBlank lineRole = iota
	roleParaFirst
	roleParaCont
	roleVerbatim
	roleSyntax
)

type sline struct {
	text string // content relative to the innermost container
	role lineRole
	pre  string // accumulated container prefixes (outermost first)
	// lazyOK: a continuation line of a paragraph (not of a setext heading's
	// content): containers may omit their marker or indentation on it
	lazyOK bool
}

// lazyCandidates lists the lines on which a container may omit its prefix: a
// paragraph continuation line whose inner containers (if any) contributed
// nothing but spaces, so that what remains begins with paragraph text.
func lazyCandidates(inner []sline, from int) []int {
	var c []int
	for i := from; i < len(inner); i++ {
		if l := inner[i]; l.lazyOK && l.role == roleParaCont && strings.TrimLeft(l.pre, " ") == "" {
			c = append(c, i)
		}
	}
	return c
}

// Serializer turns a document into CommonMark source.
type Serializer struct {
	C       Chooser
	CRLF    bool
	Reject  string // non-empty: the guard rejected the document (reason)
	Escape1 bool   // E1: escape every ASCII punctuation character (default); false: minimal escaping E0
	// features used (for counters)
	UsedTab, UsedLazy, MultiLineTitle bool
	depthCol                          int
}

func (s *Serializer) reject(format string, args ...any) {
	if s.Reject == "" {
		s.Reject = fmt.Sprintf(format, args...)
	}
}

// Serialize returns the source text, or "" with s.Reject set.
func (s *Serializer) Serialize(blocks []*Block) string {
	s.Escape1 = s.C.Dev(2) == 0
	s.CRLF = s.C.Dev(2) == 1
	lines := s.blocks(blocks, 0)
	if s.Reject != "" {
		return ""
	}
	s.guard(lines)
	if s.Reject != "" {
		return ""
	}
	eol := "\n"
	if s.CRLF {
		eol = "\r\n"
	}
	var sb strings.Builder
	for _, l := range lines {
		pre := l.pre
		if l.role != roleBlank && !strings.Contains(pre, "\t") {
			// Tab in place of the spaces up to the next tab stop, anywhere in the
			// structural prefix (container markers, their padding and indentation,
			// the indentation of indented code): in contexts where spaces define
			// block structure a tab behaves like spaces up to the next multiple of 4.
			var cands []int
			for c := 0; c < len(pre); c++ {
				k := 4 - c%4
				if c+k <= len(pre) && strings.Trim(pre[c:c+k], " ") == "" {
					cands = append(cands, c)
				}
			}
			if len(cands) > 0 {
				if d := s.C.Dev(1 + len(cands)); d > 0 {
					c := cands[d-1]
					pre = pre[:c] + "\t" + pre[c+4-c%4:]
					s.UsedTab = true
				}
			}
		}
		full := pre + l.text
		if l.role == roleBlank {
			full = strings.TrimRight(full, " ")
		}
		sb.WriteString(full)
		sb.WriteString(eol)
	}
	return sb.String()
}

// blocks serializes sibling blocks, separated by blank lines. col is the
// column at which the container's content starts (0 at top level).
func (s *Serializer) blocks(bs []*Block, col int) []sline {
	var out []sline
	prevBullet, prevDelim := byte(0), byte(0)
	for i, b := range bs {
		if i > 0 {
			out = append(out, sline{role: roleBlank})
			if b.Kind == BIndented && (bs[i-1].Kind == BBullet || bs[i-1].Kind == BOrdered) {
				s.reject("indented code directly after a list would continue the last item")
			}
			if b.Kind == BIndented && bs[i-1].Kind == BIndented {
				s.reject("two indented code blocks separated only by a blank line are one block")
			}
		}
		startLen := len(out)
		switch b.Kind {
		case BPara:
			for _, l := range s.para(b.Inl) {
				l.lazyOK = l.role == roleParaCont
				out = append(out, l)
			}
		case BATX:
			out = append(out, s.atx(b))
		case BSetext:
			out = append(out, s.para(b.Inl)...)
			n := []int{3, 1, 5}[s.C.Dev(3)]
			ch := "="
			if b.Level == 2 {
				ch = "-"
			}
			out = append(out, sline{text: strings.Repeat(ch, n), role: roleSyntax})
		case BBreak:
			out = append(out, sline{text: []string{"***", "---", "___", "* * *", "-  -  -"}[s.C.Dev(5)], role: roleSyntax})
		case BFenced:
			out = append(out, s.fenced(b)...)
		case BIndented:
			ind := "    "
			if col == 0 && s.C.Dev(2) == 1 {
				ind = "\t"
				s.UsedTab = true
			}
			for _, l := range b.Lines {
				if l == "" {
					out = append(out, sline{role: roleBlank})
				} else {
					out = append(out, sline{text: l, pre: ind, role: roleVerbatim})
				}
			}
		case BQuote:
			marker := []string{"> ", ">", " > ", "   > "}[s.C.Dev(4)]
			inner := s.blocks(b.Kids, col+len(marker))
			// One line of the quote may spell its marker with a different number of
			// leading spaces than the others (0-3 are allowed on every line
			// independently; the content column of the quote moves with the marker).
			altLine := -1
			if len(inner) > 1 {
				altLine = s.C.Dev(1+len(inner)) - 1
			}
			// Laziness: the marker may be omitted on a paragraph continuation line.
			lazyLine := -1
			if c := lazyCandidates(inner, 1); len(c) > 0 {
				if d := s.C.Dev(1 + len(c)); d > 0 {
					lazyLine = c[d-1]
					s.UsedLazy = true
				}
			}
			for li, l := range inner {
				if li == lazyLine {
					out = append(out, l)
					continue
				}
				m := marker
				if li == altLine {
					m = map[string]string{"> ": " > ", ">": "  >", " > ": "> ", "   > ": " > "}[marker]
				}
				if strings.HasSuffix(m, ">") && (strings.HasPrefix(l.pre+l.text, " ") || strings.HasPrefix(l.pre+l.text, "\t")) {
					m += " " // the marker may only swallow its own optional space (a tab would be split)
				}
				l.pre = m + l.pre
				out = append(out, l)
			}
			if len(inner) == 0 {
				out = append(out, sline{text: "", pre: ">", role: roleSyntax})
			}
		case BBullet, BOrdered:
			out = append(out, s.list(b, col, &prevBullet, &prevDelim)...)
		case BHTML:
			for _, l := range b.Lines {
				out = append(out, sline{text: l, role: roleVerbatim})
			}
		case BRefDef:
			out = append(out, s.refdef(b)...)
		}
		if i > 0 && (bs[i-1].Kind == BBullet || bs[i-1].Kind == BOrdered) && startLen < len(out) {
			if first := out[startLen].pre + out[startLen].text; strings.HasPrefix(first, " ") || strings.HasPrefix(first, "\t") {
				s.reject("indented line directly after a list could continue its last item")
			}
		}
		if b.Kind != BBullet {
			prevBullet = 0
		}
		if b.Kind != BOrdered {
			prevDelim = 0
		}
	}
	return out
}

func (s *Serializer) atx(b *Block) sline {
	text := strings.Repeat("#", b.Level)
	content := s.inlines(b.Inl)
	if strings.Contains(content, "\n") {
		s.reject("line break inside an ATX heading")
	}
	if content != "" {
		text += " " + content
	}
	switch s.C.Dev(3) {
	case 1:
		text += " #"
	case 2:
		text += " ###"
	}
	return sline{text: text, role: roleSyntax}
}

// longestRun: the longest fence-like line of character ch that could close a
// fence, i.e. one indented at most three columns once ind columns of
// indentation (that of the opening fence) are added in front of it.
func longestRun(lines []string, ch byte, ind int) int {
	best := 0
	for _, l := range lines {
		t := strings.TrimLeft(l, " ")
		if len(l)-len(t)+ind > 3 || strings.HasPrefix(t, "\t") {
			continue
		}
		n := 0
		for n < len(t) && t[n] == ch {
			n++
		}
		if n > best && strings.TrimRight(t[n:], " \t") == "" {
			best = n
		}
	}
	return best
}

func (s *Serializer) fenced(b *Block) []sline {
	ch := byte('`')
	if s.C.Dev(2) == 1 {
		ch = '~'
	}
	if ch == '`' && strings.Contains(b.Info, "`") {
		ch = '~'
	}
	// The opening fence may be indented 1-3 columns; that many columns of
	// indentation are then removed from every content line, so the content lines
	// are written with the same indentation in front. The closing fence has its
	// own indentation of 0-3 columns.
	ind := ""
	hasTab := false
	for _, l := range b.Lines {
		hasTab = hasTab || strings.Contains(l, "\t")
	}
	if !hasTab {
		ind = strings.Repeat(" ", []int{0, 1, 3}[s.C.Dev(3)])
	}
	n := 3
	if r := longestRun(b.Lines, ch, len(ind)); r >= n {
		n = r + 1
	}
	n += s.C.Dev(2)
	closeN := n + s.C.Dev(2)
	open := strings.Repeat(string(ch), n)
	if b.Info != "" {
		open += []string{"", " "}[s.C.Dev(2)] + b.Info
	}
	closeInd := strings.Repeat(" ", []int{0, 3}[s.C.Dev(2)])
	out := []sline{{text: ind + open, role: roleSyntax}}
	for _, l := range b.Lines {
		if l == "" {
			out = append(out, sline{role: roleBlank})
		} else {
			out = append(out, sline{text: ind + l, role: roleVerbatim})
		}
	}
	return append(out, sline{text: closeInd + strings.Repeat(string(ch), closeN), role: roleSyntax})
}

func (s *Serializer) refdef(b *Block) []sline {
	text := "[" + b.Label + "]: "
	if b.Dest == "" || strings.ContainsAny(b.Dest, " <>") || s.C.Dev(2) == 1 {
		text += "<" + strings.NewReplacer("<", "\\<", ">", "\\>").Replace(b.Dest) + ">"
	} else {
		text += b.Dest
	}
	if !b.HasT {
		return []sline{{text: text, role: roleSyntax}}
	}
	q := s.C.Dev(3)
	title := quoteTitle(b.Title, q)
	if s.C.Dev(2) == 1 {
		// title on its own line
		return []sline{{text: text, role: roleSyntax}, {text: title, role: roleSyntax}}
	}
	return []sline{{text: text + " " + title, role: roleSyntax}}
}

func quoteTitle(t string, style int) string {
	open, closeq := `"`, `"`
	switch style {
	case 1:
		open, closeq = "'", "'"
	case 2:
		open, closeq = "(", ")"
	}
	var sb strings.Builder
	sb.WriteString(open)
	for i := 0; i < len(t); i++ {
		c := t[i]
		if c == '\\' || string(c) == open || string(c) == closeq {
			sb.WriteByte('\\')
		}
		sb.WriteByte(c)
	}
	sb.WriteString(closeq)
	return sb.String()
}

func (s *Serializer) list(b *Block, col int, prevBullet, prevDelim *byte) []sline {
	var out []sline
	var bullet string
	delim := byte('.')
	if b.Kind == BBullet {
		chars := []byte{'-', '+', '*'}
		k := s.C.Dev(3)
		if *prevBullet != 0 && chars[k] == *prevBullet {
			k = (k + 1) % 3 // adjacent lists must differ in their bullet character
		}
		bullet = string(chars[k])
		*prevBullet = chars[k]
	} else {
		if s.C.Dev(2) == 1 {
			delim = ')'
		}
		if *prevDelim != 0 && delim == *prevDelim {
			delim = '.' + ')' - delim
		}
		*prevDelim = delim
	}
	pad := 1 + s.C.Dev(4)
	for i, it := range b.Items {
		if i > 0 && !b.Tight {
			out = append(out, sline{role: roleBlank})
		}
		marker := bullet
		if b.Kind == BOrdered {
			num := strconv.Itoa(b.Start + i)
			if i == 0 && s.C.Dev(2) == 1 {
				num = "00" + num // leading zeros do not change the start number
			}
			if len(num) > 9 {
				s.reject("ordered list number longer than 9 digits")
			}
			marker = num + string(delim)
		}
		padding := strings.Repeat(" ", pad)
		width := len(marker) + pad
		if col == 0 && (len(marker)+pad)%4 == 0 && pad <= 4 && s.C.Dev(2) == 1 {
			padding = "\t" // the next tab stop lands on the same column
			s.UsedTab = true
		}
		var inner []sline
		if b.Tight {
			// a tight item: paragraph optionally followed directly by a tight sub-list
			for j, blk := range it {
				sub := s.blocks([]*Block{blk}, col+width)
				if j > 0 && blk.Kind == BOrdered && blk.Start != 1 {
					s.reject("an ordered list can interrupt a paragraph only when it starts with 1")
				}
				inner = append(inner, sub...)
			}
		} else {
			inner = s.blocks(it, col+width)
		}
		if len(inner) == 0 {
			s.reject("empty list item")
			continue
		}
		if it[0].Kind == BIndented {
			s.reject("list item starting with indented code")
		}
		if first := inner[0].pre + inner[0].text; strings.HasPrefix(first, " ") || strings.HasPrefix(first, "\t") {
			s.reject("first line of a list item begins with white space (it would count as marker padding and move the item's content column)")
		}
		if ThematicBreak(marker+padding+inner[0].pre+inner[0].text) >= 0 {
			s.reject("marker line is a thematic break")
		}
		indent := strings.Repeat(" ", width)
		// Laziness: the item's indentation may be omitted on a paragraph continuation line.
		lazyLine := -1
		if c := lazyCandidates(inner, 1); len(c) > 0 {
			if d := s.C.Dev(1 + len(c)); d > 0 {
				lazyLine = c[d-1]
				s.UsedLazy = true
			}
		}
		for j, l := range inner {
			if j == 0 {
				l.pre = marker + padding + l.pre
			} else if j != lazyLine {
				l.pre = indent + l.pre
			}
			out = append(out, l)
		}
	}
	return out
}

// para serializes inline content into paragraph lines.
func (s *Serializer) para(in []Inl) []sline {
	text := s.inlines(in)
	var out []sline
	for i, l := range strings.Split(text, "\n") {
		role := roleParaCont
		pre := ""
		if i == 0 {
			role = roleParaFirst
		} else {
			// Paragraph continuation lines may be indented; the indentation is stripped.
			pre = strings.Repeat(" ", s.C.Dev(4))
		}
		out = append(out, sline{text: l, pre: pre, role: role})
	}
	return out
}

const escapable = "!\"#$%&'()*+,-./:;<=>?@[\\]^_`{|}~"

func (s *Serializer) escPunct(sb *strings.Builder, c byte, next byte) {
	if s.Escape1 {
		sb.WriteByte('\\')
		sb.WriteByte(c)
		return
	}
	// E0: leave characters that are inert in the middle of a line unescaped.
	atLineStart := sb.Len() == 0 || strings.HasSuffix(sb.String(), "\n")
	if !atLineStart && strings.IndexByte(".,;:'\"()?/|!@$%^{}~=+-", c) >= 0 && !(c == '!' && next == '[') && !(c == ':' && strings.HasSuffix(sb.String(), "]")) {
		sb.WriteByte(c)
		return
	}
	sb.WriteByte('\\')
	sb.WriteByte(c)
}

func firstByte(in []Inl, i int) byte {
	if i >= len(in) {
		return 0
	}
	switch in[i].Kind {
	case IWord, IPunct, IEnt, IAuto, IRaw:
		if in[i].Text != "" {
			return in[i].Text[0]
		}
	case ILink, IRefFull, IRefCollapsed, IRefShortcut:
		return '['
	case IImage:
		return '!'
	case IEmph, IStrong:
		return '*'
	case ICode:
		return '`'
	case ISpace:
		return ' '
	case ISoft, IHard:
		return '\n'
	}
	return 0
}

// inlines serializes an inline sequence; soft and hard breaks produce "\n".
func (s *Serializer) inlines(in []Inl) string {
	var sb strings.Builder
	s.inl(&sb, in, true)
	return sb.String()
}

func isDelimKind(k IKind) bool { return k == IEmph || k == IStrong }

func (s *Serializer) inl(sb *strings.Builder, in []Inl, top bool) {
	for idx, i := range in {
		var prev, next *Inl
		if idx > 0 {
			prev = &in[idx-1]
		}
		if idx+1 < len(in) {
			next = &in[idx+1]
		}
		switch i.Kind {
		case IWord:
			sb.WriteString(i.Text)
		case ISpace:
			if prev == nil || next == nil || prev.Kind == ISpace || prev.Kind == ISoft || prev.Kind == IHard || next.Kind == ISoft || next.Kind == IHard {
				s.reject("space at the edge of a line or doubled")
			}
			sb.WriteString(" ")
		case IPunct:
			s.escPunct(sb, i.Text[0], firstByte(in, idx+1))
		case IEnt:
			sb.WriteString(i.Text)
		case IEmph, IStrong:
			n := 1
			if i.Kind == IStrong {
				n = 2
			}
			ch := "*"
			outsideOK := func(p *Inl, atEdge bool) bool {
				return p == nil && atEdge || p != nil && (p.Kind == ISpace || p.Kind == ISoft || p.Kind == IHard)
			}
			if s.C.Dev(2) == 1 {
				// _ only with whitespace or a line boundary outside both ends
				if outsideOK(prev, top) && outsideOK(next, top) {
					ch = "_"
				}
			}
			for _, p := range []*Inl{prev, next} {
				if p != nil && (isDelimKind(p.Kind) || (p.Kind == IPunct && (p.Text == "*" || p.Text == "_"))) {
					s.reject("delimiter run adjacent to another delimiter character")
				}
			}
			if len(i.Kids) == 0 || i.Kids[0].Kind != IWord || i.Kids[len(i.Kids)-1].Kind != IWord {
				s.reject("emphasis content must begin and end with a word")
			}
			if !top && (prev == nil || next == nil) {
				// at the edge of an enclosing construct's content: fine unless that is emphasis
			}
			sb.WriteString(strings.Repeat(ch, n))
			s.inl(sb, i.Kids, false)
			sb.WriteString(strings.Repeat(ch, n))
		case ICode:
			for _, p := range []*Inl{prev, next} {
				if p != nil && p.Kind == IPunct && (p.Text == "`" || p.Text == "\\") {
					s.reject("code span adjacent to a backtick or backslash")
				}
				if p != nil && p.Kind == ICode {
					s.reject("adjacent code spans")
				}
			}
			lit := i.Text
			n := 1
			run, best := 0, 0
			for k := 0; k < len(lit); k++ {
				if lit[k] == '`' {
					run++
					if run > best {
						best = run
					}
				} else {
					run = 0
				}
			}
			// shortest fence length not occurring in the literal
			for hasRunOf(lit, n) {
				n++
			}
			_ = best
			if s.C.Dev(2) == 1 {
				n++
				for hasRunOf(lit, n) {
					n++
				}
			}
			pad := ""
			if strings.HasPrefix(lit, "`") || strings.HasSuffix(lit, "`") || (strings.HasPrefix(lit, " ") && strings.HasSuffix(lit, " ") && strings.Trim(lit, " ") != "") {
				pad = " "
			}
			if strings.Trim(lit, " \n") == "" {
				s.reject("all-space code span")
			}
			fence := strings.Repeat("`", n)
			sb.WriteString(fence + pad + lit + pad + fence)
		case ILink, IImage:
			if i.Kind == IImage {
				sb.WriteString("!")
			} else if prev != nil && prev.Kind == IPunct && prev.Text == "!" && !s.Escape1 {
				s.reject("unescaped ! before a link")
			}
			sb.WriteString("[")
			s.inl(sb, i.Kids, false)
			sb.WriteString("](")
			angle := i.Dest == "" && i.HasT || strings.ContainsAny(i.Dest, " <>") || !balancedParens(i.Dest)
			if !angle && i.Dest != "" && s.C.Dev(2) == 1 {
				angle = true
			}
			if angle {
				sb.WriteString("<" + strings.NewReplacer("<", "\\<", ">", "\\>").Replace(i.Dest) + ">")
			} else {
				sb.WriteString(i.Dest)
			}
			if i.HasT {
				if strings.Contains(i.Title, "\n") {
					s.MultiLineTitle = true
				}
				sep := " "
				if s.C.Dev(2) == 1 {
					sep = "\n"
				}
				sb.WriteString(sep + quoteTitle(i.Title, s.C.Dev(3)))
			}
			sb.WriteString(")")
		case IRefFull, IRefCollapsed, IRefShortcut:
			if prev != nil && prev.Kind == IPunct && prev.Text == "!" && !s.Escape1 {
				s.reject("unescaped ! before a link")
			}
			if b := firstByte(in, idx+1); b == '[' || b == '(' || b == ':' || (next != nil && next.Kind == IPunct && strings.ContainsAny(next.Text, "[(:")) {
				s.reject("reference link followed by [ ( or :")
			}
			sb.WriteString("[")
			if i.Kind == IRefFull {
				s.inl(sb, i.Kids, false)
				sb.WriteString("][" + i.Text + "]")
			} else {
				sb.WriteString(i.Text + "]")
				if i.Kind == IRefCollapsed {
					sb.WriteString("[]")
				}
			}
		case IAuto:
			sb.WriteString("<" + i.Text + ">")
		case IRaw:
			sb.WriteString(i.Text)
		case IHard, ISoft:
			if prev == nil || next == nil || prev.Kind == ISoft || prev.Kind == IHard || prev.Kind == ISpace {
				s.reject("line break at the edge of the content")
			}
			if next != nil {
				switch next.Kind {
				case IWord, IEmph, IStrong, ILink, ICode, IImage, IRefFull, IRefCollapsed:
				default:
					s.reject("line would begin with something other than a word, emphasis, link, image or code span")
				}
			}
			if i.Kind == IHard {
				sb.WriteString([]string{"\\", "  ", "   "}[s.C.Dev(3)])
			}
			sb.WriteString("\n")
		}
	}
}

func hasRunOf(s string, n int) bool {
	run := 0
	for i := 0; i <= len(s); i++ {
		if i < len(s) && s[i] == '`' {
			run++
			continue
		}
		if run == n {
			return true
		}
		run = 0
	}
	return false
}

func balancedParens(s string) bool {
	d := 0
	for i := 0; i < len(s); i++ {
		switch s[i] {
		case '\\':
			i++
		case '(':
			d++
		case ')':
			d--
			if d < 0 {
				return false
			}
		}
	}
	return d == 0
}

// guard re-reads every physical line in its container context with the
// reference recognisers only and rejects documents in which a line intended as
// paragraph text could be read as something else.
func (s *Serializer) guard(lines []sline) {
	for _, l := range lines {
		t := l.text
		switch l.role {
		case roleParaFirst, roleParaCont:
			if t == "" || t[0] == ' ' || t[0] == '\t' {
				s.reject("paragraph line empty or starting with a space")
				return
			}
			if strings.HasSuffix(t, " ") && !strings.HasSuffix(t, "  ") {
				s.reject("paragraph line ending in a single space")
				return
			}
			if ThematicBreak(t) >= 0 {
				s.reject("paragraph line reads as a thematic break")
				return
			}
			if lv, _, _ := ATXHeading(t); lv > 0 {
				s.reject("paragraph line reads as an ATX heading")
				return
			}
			if _, n, _ := CodeFence(t); n > 0 || strings.HasPrefix(t, "```") || strings.HasPrefix(t, "~~~") {
				s.reject("paragraph line reads as a code fence")
				return
			}
			if _, _, w := ListMarker(t); w >= 0 {
				s.reject("paragraph line reads as a list item")
				return
			}
			if t[0] == '>' || t[0] == '<' {
				s.reject("paragraph line begins with > or <")
				return
			}
			if SetextUnderline(t) > 0 {
				s.reject("paragraph line reads as a setext underline")
				return
			}
			if l.role == roleParaFirst && t[0] == '[' && strings.Contains(t, "]:") {
				s.reject("paragraph could read as a link reference definition")
				return
			}
		}
	}
}
