package ref

import (
	"fmt"
	"strings"

	"golang.org/x/net/html"
)

// netHTMLStartTags returns the start-tag names x/net/html's tokenizer emits.
func netHTMLStartTags(s string) []string {
	z := html.NewTokenizer(strings.NewReader(s))
	var out []string
	for {
		tt := z.Next()
		if tt == html.ErrorToken {
			return out
		}
		if tt == html.StartTagToken || tt == html.SelfClosingTagToken {
			n, _ := z.TagName()
			out = append(out, string(n))
		}
	}
}

// WhatwgSelfTest compares StartTags with x/net/html's tokenizer on every
// string of up to 4 tokens over an alphabet without raw-text element names
// (x/net/html switches to raw-text mode after those, which the data-state
// family does not), and on hand-written cases from the WHATWG text.
func WhatwgSelfTest() error {
	cases := map[string]string{
		"<script>":                "script",
		"<SCRIPT x>":              "script",
		"<!--><script>":           "script",
		"<!---><script>":          "script",
		"<!-- --!><script>":       "script",
		"<!-- <script> -->":       "",
		"<!-- --><script>":        "script",
		"<![CDATA[ > <script>":    "script",
		"<![CDATA[ <script> ]]>":  "",
		"<3 <script>":             "script",
		"< script>":               "",
		"</script>":               "",
		"<? > <script>":           "script",
		"<!D > <script>":          "script",
		"<!DOCTYPE '>' <script>":  "script",
		"<a title='>' <script>":   "a",
		"<a title=\"<script>\">":  "a",
		"<a/><script/>":           "a,script",
		"<a<script>":              "a<script",
		"<a =<script>>":           "a",
		"</ <script>":             "",
		"</><script>":             "script",
		"<!-- <!-- --><script>":   "script",
		"<!-- <!--> <script>":     "script", // "<!--" inside a comment followed by ">" ends it (comment-less-than-sign-bang-dash-dash state)
		"<!-- <!--- <script>":     "",
		"<!--<!---><script>":      "script",
		"<script":                 "",
		"<script x=\"":            "",
		"a &lt;script> <style\n>": "style",
	}
	for in, want := range cases {
		if got := strings.Join(StartTags(in), ","); got != want {
			return fmt.Errorf("StartTags(%q)=%q want %q", in, got, want)
		}
	}
	toks := []string{"<", ">", "/", "!--", "-->", "->", "![CDATA[", "]]>", "?", "!D", "b", "a", " ", "\n", "=\"x\"", "'", "\"", "-", "!"}
	var rec func(prefix string, depth int) error
	n := 0
	rec = func(prefix string, depth int) error {
		n++
		a, b := strings.Join(StartTags(prefix), ","), strings.Join(netHTMLStartTags(prefix), ",")
		if a != b {
			return fmt.Errorf("StartTags(%q)=%q but x/net/html's tokenizer emits %q", prefix, a, b)
		}
		if depth == 0 {
			return nil
		}
		for _, t := range toks {
			if err := rec(prefix+t, depth-1); err != nil {
				return err
			}
		}
		return nil
	}
	return rec("", 4)
}
