package ref

import (
	_ "embed"
	"encoding/json"
	"fmt"
	"strings"
	"unicode/utf8"
)

// Reference for emphasis resolution (C11): delimiter-run flanking from spec
// section 6.2 and the "process emphasis" procedure of the spec's appendix,
// transcribed literally WITHOUT the openers_bottom search bound (plain
// backwards search to the bottom of the stack).

type emNode struct {
	kind     int // 0 text, 1 delimiter text, 2 em, 3 strong
	text     string
	children []*emNode
	// delimiter fields
	ch                byte
	count, orig       int
	canOpen, canClose bool
	active            bool // still on the delimiter stack
}

func runeBefore(s string, i int) rune {
	if i <= 0 {
		return ' ' // beginning of line counts as whitespace
	}
	r, _ := utf8.DecodeLastRuneInString(s[:i])
	return r
}

func runeAfter(s string, i int) rune {
	if i >= len(s) {
		return ' '
	}
	r, _ := utf8.DecodeRuneInString(s[i:])
	return r
}

// Flanking computes (canOpen, canClose) of the delimiter run s[start:end].
func Flanking(s string, start, end int) (canOpen, canClose bool) {
	prev, next := runeBefore(s, start), runeAfter(s, end)
	prevWS, nextWS := IsUnicodeWhitespace(prev), IsUnicodeWhitespace(next)
	prevP, nextP := IsUnicodePunctuation(prev), IsUnicodePunctuation(next)
	left := !nextWS && (!nextP || prevWS || prevP)
	right := !prevWS && (!prevP || nextWS || nextP)
	if s[start] == '*' {
		return left, right
	}
	return left && (!right || prevP), right && (!left || nextP)
}

// EmphasisHTML returns the HTML of a paragraph whose text is s, where s
// contains no inline syntax other than * and _ delimiter runs (the caller
// guarantees this; every other character is literal text).
func EmphasisHTML(s string) string {
	var list []*emNode
	for i := 0; i < len(s); {
		if s[i] == '*' || s[i] == '_' {
			j := i
			for j < len(s) && s[j] == s[i] {
				j++
			}
			o, c := Flanking(s, i, j)
			list = append(list, &emNode{kind: 1, ch: s[i], count: j - i, orig: j - i, canOpen: o, canClose: c, active: true})
			i = j
			continue
		}
		j := i
		for j < len(s) && s[j] != '*' && s[j] != '_' {
			j++
		}
		list = append(list, &emNode{kind: 0, text: s[i:j]})
		i = j
	}
	// process emphasis, stack_bottom = nothing.
	cur := 0
	for cur < len(list) {
		c := list[cur]
		if !(c.kind == 1 && c.active && c.canClose) {
			cur++
			continue
		}
		// Look back for the first matching potential opener.
		op := -1
		for k := cur - 1; k >= 0; k-- {
			o := list[k]
			if o.kind != 1 || !o.active || o.ch != c.ch || !o.canOpen {
				continue
			}
			if (o.canClose || c.canOpen) && (o.orig+c.orig)%3 == 0 && !(o.orig%3 == 0 && c.orig%3 == 0) {
				continue
			}
			op = k
			break
		}
		if op < 0 {
			if !c.canOpen {
				c.active = false
			}
			cur++
			continue
		}
		o := list[op]
		n := 1
		kind := 2
		if o.count >= 2 && c.count >= 2 {
			n, kind = 2, 3
		}
		inner := append([]*emNode(nil), list[op+1:cur]...)
		for _, d := range inner {
			d.active = false // delimiters between opener and closer leave the stack
		}
		node := &emNode{kind: kind, children: inner}
		o.count -= n
		c.count -= n
		// Rebuild the list: ..., opener (if non-empty), node, closer (if non-empty), ...
		var nl []*emNode
		nl = append(nl, list[:op]...)
		if o.count > 0 {
			nl = append(nl, o)
		} else {
			o.active = false
		}
		nl = append(nl, node)
		closerPos := len(nl)
		if c.count > 0 {
			nl = append(nl, c)
		} else {
			c.active = false
		}
		nl = append(nl, list[cur+1:]...)
		list = nl
		cur = closerPos // the closer if it remains, else the next element
	}
	var sb strings.Builder
	sb.WriteString("<p>")
	var emit func(ns []*emNode)
	emit = func(ns []*emNode) {
		for _, n := range ns {
			switch n.kind {
			case 0:
				escText(&sb, n.text)
			case 1:
				sb.WriteString(strings.Repeat(string(n.ch), n.count))
			case 2:
				sb.WriteString("<em>")
				emit(n.children)
				sb.WriteString("</em>")
			case 3:
				sb.WriteString("<strong>")
				emit(n.children)
				sb.WriteString("</strong>")
			}
		}
	}
	emit(list)
	sb.WriteString("</p>")
	return sb.String()
}

//go:embed specdata/spec-0.30.json
var specJSON []byte

// SpecExample is one example of the CommonMark 0.30 specification.
type SpecExample struct {
	Markdown string `json:"markdown"`
	HTML     string `json:"html"`
	Example  int    `json:"example"`
	Section  string `json:"section"`
}

// SpecExamples returns the embedded copy of the spec's examples.
func SpecExamples() []SpecExample {
	var ex []SpecExample
	if err := json.Unmarshal(specJSON, &ex); err != nil {
		panic(err)
	}
	return ex
}

// EmphSelfTest runs EmphasisHTML on every example of the spec's emphasis
// section that uses no other inline or block syntax.
func EmphSelfTest() (int, error) {
	n := 0
	for _, e := range SpecExamples() {
		if e.Section != "Emphasis and strong emphasis" {
			continue
		}
		md := strings.TrimSuffix(e.Markdown, "\n")
		if strings.ContainsAny(md, "\\`[]<>&!\n") || strings.HasPrefix(md, " ") || ThematicBreak(md) >= 0 {
			continue
		}
		if _, _, w := ListMarker(md); w >= 0 {
			continue
		}
		n++
		want := strings.TrimSuffix(e.HTML, "\n")
		if got := EmphasisHTML(md); got != want {
			return n, fmt.Errorf("emphasis reference on spec example %d (%q): got %q, spec says %q", e.Example, md, got, want)
		}
	}
	if n < 90 {
		return n, fmt.Errorf("only %d spec emphasis examples were usable for the self-test", n)
	}
	return n, nil
}
