package ref

import (
	"fmt"
	"regexp"
	"strings"
)

// HTML blocks, CommonMark 0.30 section 4.6: the seven start conditions and
// their end conditions, transcribed from the prose. Never consults the
// implementation.

// HTMLBlockNames6 are the element names of start condition 6.
var HTMLBlockNames6 = strings.Fields(`address article aside base basefont blockquote body caption center col colgroup dd details dialog dir div dl dt fieldset figcaption figure footer form frame frameset h1 h2 h3 h4 h5 h6 head header hr html iframe legend li link main menu menuitem nav noframes ol optgroup option p param section source summary table tbody td tfoot th thead title tr track ul`)

var (
	reHB1     = regexp.MustCompile(`(?i)^<(?:pre|script|style|textarea)(?:[ \t>]|$)`)
	reHB1End  = regexp.MustCompile(`(?i)</(?:pre|script|style|textarea)>`)
	reHB4     = regexp.MustCompile(`^<![A-Za-z]`)
	reHB6     = regexp.MustCompile(`(?i)^</?(` + strings.Join(HTMLBlockNames6, "|") + `)(?:[ \t>]|/>|$)`)
	reHB7     = regexp.MustCompile(`^(?:<` + rhName + rhAttribute + `*` + rhWS0 + `/?>|</` + rhName + rhWS0 + `>)[ \t]*$`)
	reHB7Name = regexp.MustCompile(`(?i)^</?(?:pre|script|style|textarea)(?:[^A-Za-z0-9-]|$)`)
)

// HTMLBlockStart returns the number (1..7) of the start condition that the
// line (without its line ending) satisfies after up to three spaces of
// indentation, or 0.
func HTMLBlockStart(line string) int {
	ind := 0
	for ind < len(line) && line[ind] == ' ' {
		ind++
	}
	if ind > 3 {
		return 0
	}
	t := line[ind:]
	switch {
	case reHB1.MatchString(t):
		return 1
	case strings.HasPrefix(t, "<!--"):
		return 2
	case strings.HasPrefix(t, "<?"):
		return 3
	case reHB4.MatchString(t):
		return 4
	case strings.HasPrefix(t, "<![CDATA["):
		return 5
	case reHB6.MatchString(t):
		return 6
	case reHB7.MatchString(t) && !reHB7Name.MatchString(t):
		return 7
	}
	return 0
}

// HTMLBlockEnds reports whether a line satisfies the end condition of kinds 1-5
// (kinds 6 and 7 end before a blank line).
func HTMLBlockEnds(kind int, line string) bool {
	switch kind {
	case 1:
		return reHB1End.MatchString(line)
	case 2:
		return strings.Contains(line, "-->")
	case 3:
		return strings.Contains(line, "?>")
	case 4:
		return strings.Contains(line, ">")
	case 5:
		return strings.Contains(line, "]]>")
	}
	return false
}

// HTMLBlockDoc is the reference reading of a top-level document whose lines
// are HTML block material, plain text and blank lines only: it returns the
// expected HTML (blocks separated by newlines). Text lines must not begin any
// other block construct and must contain no inline syntax other than raw HTML.
func HTMLBlockDoc(lines []string) (html string, contested bool) {
	h, _, c := htmlBlockDoc(lines)
	return h, c
}

// HTMLBlockContested reports whether the line, read where a block could start,
// is a complete tag named pre, script, style or textarea that does not satisfy
// start condition 1 (a closing tag, or an open tag like <pre/>): the prose of
// condition 7 excludes these names, the reference implementations (cmark,
// commonmark.js) do not. Documents with such a line are not judged.
func HTMLBlockContested(line string) bool {
	t := strings.TrimLeft(line, " ")
	return len(line)-len(t) <= 3 && !reHB1.MatchString(t) && reHB7.MatchString(t) && reHB7Name.MatchString(t)
}

func htmlBlockDoc(lines []string) (string, []string, bool) {
	contested := false
	var paras []string
	var out []string
	var para []string
	var html []string
	kind := 0
	flushPara := func() {
		if len(para) == 0 {
			return
		}
		for i := range para {
			para[i] = strings.Trim(para[i], " \t")
		}
		s := strings.Join(para, "\n")
		paras = append(paras, s)
		var sb strings.Builder
		sb.WriteString("<p>")
		pos := 0
		for _, sp := range RawHTMLSpans(s) {
			escText(&sb, s[pos:sp[0]])
			sb.WriteString(s[sp[0]:sp[1]])
			pos = sp[1]
		}
		escText(&sb, s[pos:])
		sb.WriteString("</p>")
		out = append(out, sb.String())
		para = nil
	}
	flushHTML := func() {
		if kind != 0 {
			out = append(out, strings.Join(html, "\n"))
		}
		html, kind = nil, 0
	}
	for _, l := range lines {
		blank := strings.Trim(l, " \t") == ""
		if kind != 0 {
			if kind >= 6 && blank {
				flushHTML()
				continue
			}
			html = append(html, l)
			if HTMLBlockEnds(kind, l) {
				flushHTML()
			}
			continue
		}
		if blank {
			flushPara()
			continue
		}
		if HTMLBlockContested(l) {
			contested = true
		}
		k := HTMLBlockStart(l)
		if k >= 1 && k <= 6 || k == 7 && len(para) == 0 {
			flushPara()
			kind = k
			html = []string{l}
			if HTMLBlockEnds(k, l) {
				flushHTML()
			}
			continue
		}
		para = append(para, l)
	}
	flushPara()
	flushHTML()
	return strings.Join(out, "\n"), paras, contested
}

// HTMLBlockSelfTest runs the reference reading on every example of the spec's
// "HTML blocks" section whose paragraphs use no other syntax and whose lines
// start no other block construct, and compares with the spec's HTML through
// Norm. No parser is involved.
func HTMLBlockSelfTest() (int, error) {
	n := 0
examples:
	for _, e := range SpecExamples() {
		if e.Section != "HTML blocks" {
			continue
		}
		lines := strings.Split(strings.TrimSuffix(e.Markdown, "\n"), "\n")
		for _, l := range lines {
			t := strings.TrimLeft(l, " ")
			if len(l)-len(t) >= 4 || strings.HasPrefix(t, ">") || strings.HasPrefix(t, "- ") || strings.HasPrefix(t, "```") || strings.HasPrefix(t, "#") || strings.Contains(l, "\t") {
				continue examples
			}
		}
		got, paras, _ := htmlBlockDoc(lines)
		for _, p := range paras {
			if strings.ContainsAny(p, "*_`[&\\") {
				continue examples
			}
		}
		if g, w := Norm(got), Norm(e.HTML); g != w {
			return n, fmt.Errorf("HTML block reference: spec example %d (%q): predicted %q, spec says %q", e.Example, e.Markdown, g, w)
		}
		n++
	}
	if n < 25 {
		return n, fmt.Errorf("HTML block reference: only %d spec examples usable", n)
	}
	return n, nil
}
