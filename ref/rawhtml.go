package ref

import (
	"fmt"
	"regexp"
	"strings"
)

// Inline raw HTML, CommonMark 0.30 section 6.6, transcribed from the prose
// definitions (tag name, attribute, attribute value specification, open tag,
// closing tag, HTML comment, processing instruction, declaration, CDATA
// section). Never consults the implementation.

const (
	rhEOL  = `(?:\r\n|\n|\r)`
	rhWS0  = `(?:[ \t]*(?:` + rhEOL + `[ \t]*)?)`                     // optional spaces, tabs, and up to one line ending
	rhWS1  = `(?:[ \t]+(?:` + rhEOL + `[ \t]*)?|` + rhEOL + `[ \t]*)` // the same, at least one character
	rhName = `[A-Za-z][A-Za-z0-9-]*`
	rhAttr = `[A-Za-z_:][A-Za-z0-9_.:-]*`
	rhVal  = "(?:[^ \\t\\r\\n\"'=<>`]+|'[^']*'|\"[^\"]*\")"
	rhSpec = `(?:` + rhWS0 + `=` + rhWS0 + rhVal + `)`
	rhAttribute = `(?:` + rhWS1 + rhAttr + rhSpec + `?)`
)

var (
	reOpenTag    = regexp.MustCompile(`^<` + rhName + rhAttribute + `*` + rhWS0 + `/?>`)
	reClosingTag = regexp.MustCompile(`^</` + rhName + rhWS0 + `>`)
	reDeclStart  = regexp.MustCompile(`^<![A-Za-z]`)
)

// RawHTMLAt returns the length of the inline raw HTML construct that begins at
// s[i] (which must be '<'), or 0 if none does.
func RawHTMLAt(s string, i int) int {
	t := s[i:]
	if m := reOpenTag.FindStringIndex(t); m != nil {
		return m[1]
	}
	if m := reClosingTag.FindStringIndex(t); m != nil {
		return m[1]
	}
	switch {
	case strings.HasPrefix(t, "<!--"):
		// "<!--" + text + "-->", where text does not start with ">" or "->",
		// does not end with "-", and does not contain "--".
		rest := t[4:]
		if strings.HasPrefix(rest, ">") || strings.HasPrefix(rest, "->") {
			return 0
		}
		k := strings.Index(rest, "--")
		if k < 0 || !strings.HasPrefix(rest[k:], "-->") {
			return 0
		}
		return 4 + k + 3
	case strings.HasPrefix(t, "<?"):
		k := strings.Index(t[2:], "?>")
		if k < 0 {
			return 0
		}
		return 2 + k + 2
	case strings.HasPrefix(t, "<![CDATA["):
		k := strings.Index(t[9:], "]]>")
		if k < 0 {
			return 0
		}
		return 9 + k + 3
	case reDeclStart.MatchString(t):
		k := strings.IndexByte(t, '>')
		if k < 0 {
			return 0
		}
		return k + 1
	}
	return 0
}

// RawHTMLSpans scans s left to right and returns the [start,end) ranges of the
// raw HTML constructs, assuming s contains no other inline syntax that could
// take precedence (code spans, autolinks, backslash escapes before '<').
func RawHTMLSpans(s string) [][2]int {
	var out [][2]int
	for i := 0; i < len(s); {
		if s[i] == '<' {
			if n := RawHTMLAt(s, i); n > 0 {
				out = append(out, [2]int{i, i + n})
				i += n
				continue
			}
		}
		i++
	}
	return out
}

// RawHTMLSelfTest predicts the HTML of every example of the spec's "Raw HTML"
// section from RawHTMLSpans alone (text escaped, tags verbatim, a backslash
// before punctuation dropped outside tags) and compares it with the spec's.
func RawHTMLSelfTest() (int, error) {
	n := 0
	for _, e := range SpecExamples() {
		if e.Section != "Raw HTML" {
			continue
		}
		var paras []string
		for _, p := range strings.Split(strings.TrimRight(e.Markdown, "\n"), "\n\n") {
			var sb strings.Builder
			sb.WriteString("<p>")
			spans := RawHTMLSpans(p)
			pos := 0
			text := func(t string) {
				for i := 0; i < len(t); i++ {
					if t[i] == '\\' && i+1 < len(t) && IsASCIIPunctuation(t[i+1]) {
						continue
					}
					switch t[i] {
					case '<':
						sb.WriteString("&lt;")
					case '>':
						sb.WriteString("&gt;")
					case '"':
						sb.WriteString("&quot;")
					case '&':
						sb.WriteString("&amp;")
					default:
						sb.WriteByte(t[i])
					}
				}
			}
			for _, sp := range spans {
				text(p[pos:sp[0]])
				sb.WriteString(p[sp[0]:sp[1]])
				pos = sp[1]
			}
			text(p[pos:])
			sb.WriteString("</p>")
			paras = append(paras, sb.String())
		}
		got := strings.Join(paras, "\n") + "\n"
		if got != e.HTML {
			return n, fmt.Errorf("raw HTML reference: spec example %d (%q): predicted %q, spec says %q", e.Example, e.Markdown, got, e.HTML)
		}
		n++
	}
	if n < 20 {
		return n, fmt.Errorf("raw HTML reference: only %d spec examples found", n)
	}
	return n, nil
}
