package ref

import "fmt"

// RecogSelfTest checks the reference recognisers against cases transcribed by
// hand from the CommonMark 0.30 text (sections 4.1, 4.2, 4.3, 4.5, 5.2, 6.5,
// 2.5). It does not touch the code under verification.
func RecogSelfTest() error {
	type tb struct {
		line string
		end  int
	}
	for _, c := range []tb{
		{"***", 3}, {"---\n", 3}, {"___", 3}, {"+++", -1}, {"===", -1}, {"--", -1}, {"**", -1}, {"__", -1},
		{"_____________________________________", 37}, {"- - -", 5}, {"**  * ** * ** * **", 18}, {"-     -      -      -", 21},
		{"- - - -    ", 7}, {"_ _ _ _ a", -1}, {"a------", -1}, {"---a---", -1}, {"*-*", -1}, {"* * *\r\n", 5}, {"*\t*\t*\t", 5},
	} {
		if got := ThematicBreak(c.line); got != c.end {
			return fmt.Errorf("ThematicBreak(%q)=%d want %d", c.line, got, c.end)
		}
	}
	type ah struct {
		line    string
		level   int
		content string
	}
	for _, c := range []ah{
		{"# foo", 1, "foo"}, {"## foo", 2, "foo"}, {"###### foo", 6, "foo"}, {"####### foo", 0, ""}, {"#5 bolt", 0, ""}, {"#hashtag", 0, ""},
		{"# foo *bar* \\*baz\\*", 1, "foo *bar* \\*baz\\*"}, {"#                  foo                     ", 1, "foo"},
		{"## foo ##", 2, "foo"}, {"###   bar    ###", 3, "bar"}, {"# foo ##################################", 1, "foo"}, {"##### foo ##", 5, "foo"},
		{"### foo ###     ", 3, "foo"}, {"### foo ### b", 3, "foo ### b"}, {"# foo#", 1, "foo#"},
		{"### foo \\###", 3, "foo \\###"}, {"## foo #\\##", 2, "foo #\\##"}, {"# foo \\#", 1, "foo \\#"},
		{"## ", 2, ""}, {"#", 1, ""}, {"### ###", 3, ""}, {"#\n", 1, ""}, {"# a\r\n", 1, "a"}, {"#\ta\t#\t", 1, "a"}, {"# #", 1, ""}, {"# f#", 1, "f#"}, {"## #a", 2, "#a"},
		{"# a #b", 1, "a #b"}, {"# a # #", 1, "a #"},
	} {
		l, s, e := ATXHeading(c.line)
		if l != c.level || (l > 0 && c.line[s:e] != c.content) {
			return fmt.Errorf("ATXHeading(%q)=(%d,%q) want (%d,%q)", c.line, l, c.line[s:e], c.level, c.content)
		}
	}
	type su struct {
		line  string
		level int
	}
	for _, c := range []su{
		{"===", 1}, {"---", 2}, {"=", 1}, {"-", 2}, {"=========================", 1}, {"---  ", 2}, {"= =", 0}, {"--- -", 0}, {"-=", 0}, {"==\t\n", 1}, {"a", 0}, {"", 0}, {"---a", 0}, {"___", 0},
	} {
		if got := SetextUnderline(c.line); got != c.level {
			return fmt.Errorf("SetextUnderline(%q)=%d want %d", c.line, got, c.level)
		}
	}
	type cf struct {
		line string
		ch   byte
		n    int
		info string
	}
	for _, c := range []cf{
		{"```", '`', 3, ""}, {"~~~", '~', 3, ""}, {"``", 0, 0, ""}, {"~~", 0, 0, ""}, {"````", '`', 4, ""}, {"~~~~ ruby", '~', 4, "ruby"},
		{"```ruby", '`', 3, "ruby"}, {"~~~~    ruby startline=3 $%@#$", '~', 4, "ruby startline=3 $%@#$"}, {"````;", '`', 4, ";"},
		{"``` aa ```", 0, 0, ""}, {"~~~ aa ``` ~~~", '~', 3, "aa ``` ~~~"}, {"```\n", '`', 3, ""}, {"``` \t go \r\n", '`', 3, "go"}, {"~~~`", '~', 3, "`"}, {"```~", '`', 3, "~"},
		{"`~~", 0, 0, ""}, {"a```", 0, 0, ""}, {"``` `", 0, 0, ""},
	} {
		ch, n, info := CodeFence(c.line)
		if ch != c.ch || n != c.n || info != c.info {
			return fmt.Errorf("CodeFence(%q)=(%q,%d,%q) want (%q,%d,%q)", c.line, ch, n, info, c.ch, c.n, c.info)
		}
	}
	type lm struct {
		line  string
		delim byte
		num   int
		width int
	}
	for _, c := range []lm{
		{"- a", '-', 0, 1}, {"+ a", '+', 0, 1}, {"* a", '*', 0, 1}, {"-", '-', 0, 1}, {"-\n", '-', 0, 1}, {"-a", 0, 0, -1}, {"1. a", '.', 1, 2}, {"1) a", ')', 1, 2},
		{"123456789. ok", '.', 123456789, 10}, {"1234567890. not ok", 0, 0, -1}, {"0. ok", '.', 0, 2}, {"003. ok", '.', 3, 4}, {"-1. not ok", 0, 0, -1},
		{"1.a", 0, 0, -1}, {"1.", '.', 1, 2}, {"1.\ta", '.', 1, 2}, {"1", 0, 0, -1}, {"1:", 0, 0, -1}, {"a. b", 0, 0, -1}, {"*\ta", '*', 0, 1}, {"", 0, 0, -1},
	} {
		d, n, w := ListMarker(c.line)
		if d != c.delim || n != c.num || w != c.width {
			return fmt.Errorf("ListMarker(%q)=(%q,%d,%d) want (%q,%d,%d)", c.line, d, n, w, c.delim, c.num, c.width)
		}
	}
	for s, want := range map[string]bool{
		"foo@bar.example.com": true, "foo+special@Bar.baz-bar0.com": true, "foo\\+@bar.example.com": false, "a@b": true, "a@b.": false, "a@-b": false,
		"a@b-": false, "@b": false, "a@": false, "a b@c": false, "a@b..c": false, "a@b.c-d.e": true, "a.@b": true,
	} {
		if IsEmailAddress(s) != want {
			return fmt.Errorf("IsEmailAddress(%q) != %v", s, want)
		}
	}
	for s, want := range map[string]int{
		"<http://foo.bar.baz>": 20, "<irc://foo.bar:2233/baz>x": 24, "<MAILTO:FOO@BAR.BAZ>": 20, "<a+b+c:d>": 9, "<made-up-scheme://foo,bar>": 26,
		"<http://foo.bar/baz bim>": -1, "<>": -1, "< http://foo.bar >": -1, "<m:abc>": -1, "<foo.bar.baz>": -1, "<foo@bar.example.com>": 21, "<localhost:5001/foo>": 20,
		"<ab:>": 5, "<a:b>": -1, "<http://a": -1, "<http://a<b>": -1,
	} {
		if got := Autolink(s); got != want {
			return fmt.Errorf("Autolink(%q)=%d want %d", s, got, want)
		}
	}
	for s, want := range map[string]int{
		"&nbsp;": 6, "&amp;x": 5, "&copy;": 6, "&AElig;": 7, "&Dcaron;": 8, "&frac34;": 8, "&HilbertSpace;": 14, "&ClockwiseContourIntegral;": 26,
		"&#35;": 5, "&#1234;": 7, "&#992;": 6, "&#0;": 4, "&#X22;": 6, "&#XD06;": 7, "&#xcab;": 7, "&nbsp": -1, "&x;": -1, "&#;": -1, "&#x;": -1,
		"&#87654321;": -1, "&#abcdef0;": -1, "&ThisIsNotDefined;": -1, "&hi?;": -1, "&copy": -1, "&MadeUpEntity;": -1, "&#1234567;": 10, "&#x123456;": 10,
		"&#x1234567;": -1, "&notit;": -1, "&#xG1;": -1, "&;": -1, "&": -1,
	} {
		if got := CharacterReference(s); got != want {
			return fmt.Errorf("CharacterReference(%q)=%d want %d", s, got, want)
		}
	}
	for b := 0; b < 256; b++ {
		c := byte(b)
		wantP := (c >= 0x21 && c <= 0x2f) || (c >= 0x3a && c <= 0x40) || (c >= 0x5b && c <= 0x60) || (c >= 0x7b && c <= 0x7e)
		if IsASCIIPunctuation(c) != wantP {
			return fmt.Errorf("IsASCIIPunctuation(%#x) set and ranges of spec 2.1 disagree", c)
		}
	}
	if ok, _ := WellFormedURI("/a%20b?x=1&y#z[]"); !ok {
		return fmt.Errorf("WellFormedURI rejects a well-formed URI")
	}
	for _, s := range []string{"a b", "%", "%2", "%2G", "é", "\"", "<", "\\", "^", "`", "{", "|"} {
		if ok, _ := WellFormedURI(s); ok {
			return fmt.Errorf("WellFormedURI accepts %q", s)
		}
	}
	return nil
}
