package ref

import (
	"strconv"
	"strings"
	"unicode/utf8"

	cm "zombiezen.com/go/commonmark"
)

// Reference HTML renderer (C10): a direct recursive reading of a parsed tree
// through the public node accessors only (Kind, Child, Text, LinkDestination,
// ...). It never calls the renderer, Walk or the parser.

// RenderConfig mirrors the HTMLRenderer options.
type RenderConfig struct {
	SoftBreak int // 0 preserve, 1 space, 2 harden
	IgnoreRaw bool
	Refs      cm.ReferenceMap
	// Filter, if non-nil, is the tag predicate. Generated tags are written with
	// their '<' escaped exactly when the predicate accepts the name the renderer
	// shows it: "name" for a start tag and "/name" for an end tag (the
	// documentation does not say what an end tag is shown as; this follows the
	// implementation and is listed in the calibration log). Raw HTML is written
	// with RawLT in place of every '<', because which of those are escaped is
	// C17's subject: the comparison accepts '<' or "&lt;" there.
	Filter func([]byte) bool
}

// RawLT stands for a '<' of raw HTML in the reference output when a filter is set.
const RawLT = "\x01"

// MatchFiltered compares renderer output with a reference output that may
// contain RawLT: at a RawLT the output may have '<' or "&lt;".
func MatchFiltered(got, want string) bool {
	i, j := 0, 0
	for j < len(want) {
		if want[j] == RawLT[0] {
			switch {
			case strings.HasPrefix(got[i:], "&lt;"):
				i += 4
			case i < len(got) && got[i] == '<':
				i++
			default:
				return false
			}
			j++
			continue
		}
		if i >= len(got) || got[i] != want[j] {
			return false
		}
		i++
		j++
	}
	return i == len(got)
}

// open writes "<name" (no closing bracket) of a generated start tag.
func (r *refRenderer) open(name string) {
	if r.cfg.Filter != nil && r.cfg.Filter([]byte(name)) {
		r.sb.WriteString("&lt;")
	} else {
		r.sb.WriteString("<")
	}
	r.sb.WriteString(name)
}

// tag writes a complete generated start tag without attributes.
func (r *refRenderer) tag(name string) {
	r.open(name)
	r.sb.WriteString(">")
}

// end writes a generated end tag.
func (r *refRenderer) end(name string) {
	if r.cfg.Filter != nil && r.cfg.Filter([]byte("/"+name)) {
		r.sb.WriteString("&lt;/")
	} else {
		r.sb.WriteString("</")
	}
	r.sb.WriteString(name)
	r.sb.WriteString(">")
}

func (r *refRenderer) raw(s string) {
	if r.cfg.Filter != nil {
		s = strings.ReplaceAll(s, "<", RawLT)
	}
	r.sb.WriteString(s)
}

// escText escapes text content (the renderer's documented escape set for text).
func escText(sb *strings.Builder, s string) {
	for i := 0; i < len(s); i++ {
		switch s[i] {
		case '&':
			sb.WriteString("&amp;")
		case '\'':
			sb.WriteString("&#39;")
		case '<':
			sb.WriteString("&lt;")
		case '>':
			sb.WriteString("&gt;")
		case '"':
			sb.WriteString("&quot;")
		default:
			sb.WriteByte(s[i])
		}
	}
}

// escAttr escapes an attribute value (html.EscapeString's set and spellings).
func escAttr(sb *strings.Builder, s string) {
	for i := 0; i < len(s); i++ {
		switch s[i] {
		case '&':
			sb.WriteString("&amp;")
		case '\'':
			sb.WriteString("&#39;")
		case '<':
			sb.WriteString("&lt;")
		case '>':
			sb.WriteString("&gt;")
		case '"':
			sb.WriteString("&#34;")
		default:
			sb.WriteByte(s[i])
		}
	}
}

// NormURI is the reference for NormalizeURI as documented: keep RFC 3986
// reserved and unreserved characters and well-formed percent escapes, encode
// a lone '%' as %25 and everything else as upper-case percent-encoded UTF-8
// (an invalid byte as U+FFFD, like ranging over a Go string does).
func NormURI(s string) string {
	const safe = ";/?:@&=+$,-_.!~*'()#"
	var sb strings.Builder
	for i := 0; i < len(s); {
		c := s[i]
		switch {
		case c == '%':
			if i+2 < len(s) && IsHexDigit(s[i+1]) && IsHexDigit(s[i+2]) {
				sb.WriteString(s[i : i+3])
				i += 3
				continue
			}
			sb.WriteString("%25")
			i++
		case IsASCIILetter(c) || IsASCIIDigit(c) || strings.IndexByte(safe, c) >= 0:
			sb.WriteByte(c)
			i++
		default:
			r, n := utf8.DecodeRuneInString(s[i:])
			var buf [4]byte
			m := utf8.EncodeRune(buf[:], r)
			for _, b := range buf[:m] {
				sb.WriteByte('%')
				sb.WriteByte("0123456789ABCDEF"[b>>4])
				sb.WriteByte("0123456789ABCDEF"[b&15])
			}
			i += n
		}
	}
	return sb.String()
}

type refRenderer struct {
	cfg RenderConfig
	src []byte
	sb  strings.Builder
}

// RenderBlock renders one root block.
func RenderBlock(rb *cm.RootBlock, cfg RenderConfig) string {
	r := &refRenderer{cfg: cfg, src: rb.Source}
	r.block(&rb.Block, nil)
	return r.sb.String()
}

// Render renders a block list: blocks joined by a blank line.
func Render(blocks []*cm.RootBlock, cfg RenderConfig) string {
	parts := make([]string, len(blocks))
	for i, b := range blocks {
		parts[i] = RenderBlock(b, cfg)
	}
	return strings.Join(parts, "\n\n")
}

func (r *refRenderer) children(n cm.Node, parent *cm.Block) {
	for i, k := 0, n.ChildCount(); i < k; i++ {
		c := n.Child(i)
		if b := c.Block(); b != nil {
			r.block(b, parent)
		} else if in := c.Inline(); in != nil {
			r.inline(in)
		}
	}
}

func firstWord(s string) string {
	f := strings.Fields(s)
	if len(f) == 0 {
		return ""
	}
	return f[0]
}

func (r *refRenderer) block(b *cm.Block, parent *cm.Block) {
	w := &r.sb
	switch b.Kind() {
	case cm.ParagraphKind:
		tight := parent != nil && parent.IsTightList()
		if !tight {
			r.tag("p")
		}
		r.children(b.AsNode(), b)
		if !tight {
			r.end("p")
		}
	case cm.ThematicBreakKind:
		r.tag("hr")
	case cm.ATXHeadingKind, cm.SetextHeadingKind:
		l := b.HeadingLevel()
		if l < 1 || l > 6 {
			l = 6
		}
		r.tag("h" + strconv.Itoa(l))
		r.children(b.AsNode(), b)
		r.end("h" + strconv.Itoa(l))
	case cm.IndentedCodeBlockKind, cm.FencedCodeBlockKind:
		r.tag("pre")
		r.open("code")
		if info := b.InfoString(); info != nil {
			if fw := firstWord(info.Text(r.src)); fw != "" {
				w.WriteString(` class="language-`)
				escAttr(w, fw)
				w.WriteString(`"`)
			}
		}
		w.WriteString(">")
		r.children(b.AsNode(), b)
		r.end("code")
		r.end("pre")
	case cm.BlockQuoteKind:
		r.tag("blockquote")
		r.children(b.AsNode(), b)
		r.end("blockquote")
	case cm.ListKind:
		if b.IsOrderedList() {
			r.open("ol")
			if b.ChildCount() > 0 {
				if it := b.Child(0).Block(); it != nil {
					if n := it.ListItemNumber(r.src); n >= 0 && n != 1 {
						w.WriteString(` start="` + strconv.Itoa(n) + `"`)
					}
				}
			}
			w.WriteString(">")
			r.children(b.AsNode(), b)
			r.end("ol")
		} else {
			r.tag("ul")
			r.children(b.AsNode(), b)
			r.end("ul")
		}
	case cm.ListItemKind:
		r.tag("li")
		r.children(b.AsNode(), b)
		r.end("li")
	case cm.HTMLBlockKind:
		if !r.cfg.IgnoreRaw {
			r.children(b.AsNode(), b)
		}
	case cm.ListMarkerKind, cm.LinkReferenceDefinitionKind:
		// nothing
	}
}

func (r *refRenderer) linkDef(in *cm.Inline) cm.LinkDefinition {
	if ref := in.LinkReference(); ref != "" {
		return r.cfg.Refs[ref]
	}
	t := in.LinkTitle()
	d := cm.LinkDefinition{TitlePresent: t != nil}
	if dst := in.LinkDestination(); dst != nil {
		d.Destination = dst.Text(r.src)
	}
	if t != nil {
		d.Title = t.Text(r.src)
	}
	return d
}

// altText is the plain-text content of an image description.
func (r *refRenderer) altText(in *cm.Inline, w *strings.Builder) {
	for i, k := 0, in.ChildCount(); i < k; i++ {
		c := in.Child(i)
		switch c.Kind() {
		case cm.TextKind:
			escText(w, c.Text(r.src))
		case cm.CharacterReferenceKind:
			sp := c.Span()
			w.Write(r.src[sp.Start:sp.End])
		case cm.IndentKind, cm.SoftLineBreakKind, cm.HardLineBreakKind:
			w.WriteByte(' ')
		case cm.LinkDestinationKind, cm.LinkTitleKind, cm.LinkLabelKind:
		default:
			r.altText(c, w)
		}
	}
}

func (r *refRenderer) inline(in *cm.Inline) {
	w := &r.sb
	switch in.Kind() {
	case cm.TextKind, cm.UnparsedKind:
		sp := in.Span()
		escText(w, string(r.src[sp.Start:sp.End]))
	case cm.CharacterReferenceKind:
		sp := in.Span()
		w.Write(r.src[sp.Start:sp.End])
	case cm.RawHTMLKind:
		if !r.cfg.IgnoreRaw {
			r.raw(in.Text(r.src))
		}
	case cm.SoftLineBreakKind:
		switch r.cfg.SoftBreak {
		case 2:
			r.tag("br")
			w.WriteString("\n")
		case 1:
			w.WriteByte(' ')
		default:
			w.WriteString(in.Text(r.src))
		}
	case cm.HardLineBreakKind:
		r.tag("br")
		w.WriteString("\n")
	case cm.EmphasisKind:
		r.tag("em")
		r.children(in.AsNode(), nil)
		r.end("em")
	case cm.StrongKind:
		r.tag("strong")
		r.children(in.AsNode(), nil)
		r.end("strong")
	case cm.CodeSpanKind:
		r.tag("code")
		r.children(in.AsNode(), nil)
		r.end("code")
	case cm.LinkKind:
		d := r.linkDef(in)
		r.open("a")
		w.WriteString(` href="`)
		escAttr(w, NormURI(d.Destination))
		w.WriteString(`"`)
		if d.TitlePresent {
			w.WriteString(` title="`)
			escAttr(w, d.Title)
			w.WriteString(`"`)
		}
		w.WriteString(">")
		r.children(in.AsNode(), nil)
		r.end("a")
	case cm.ImageKind:
		d := r.linkDef(in)
		r.open("img")
		w.WriteString(` src="`)
		escAttr(w, NormURI(d.Destination))
		w.WriteString(`"`)
		if d.TitlePresent {
			w.WriteString(` title="`)
			escAttr(w, d.Title)
			w.WriteString(`"`)
		}
		w.WriteString(` alt="`)
		r.altText(in, w)
		w.WriteString(`">`)
	case cm.AutolinkKind:
		dest := ""
		if in.ChildCount() > 0 {
			dest = in.Child(0).Text(r.src)
		}
		r.open("a")
		w.WriteString(` href="`)
		if IsEmailAddress(dest) {
			w.WriteString("mailto:")
		}
		escAttr(w, NormURI(dest))
		w.WriteString(`">`)
		escAttr(w, dest)
		r.end("a")
	case cm.IndentKind:
		for i := 0; i < in.IndentWidth(); i++ {
			w.WriteByte(' ')
		}
	case cm.HTMLTagKind:
		r.children(in.AsNode(), nil)
	case cm.InfoStringKind, cm.LinkDestinationKind, cm.LinkTitleKind, cm.LinkLabelKind:
		// nothing
	}
}
