package ref

import (
	"strconv"
	"strings"
	"unicode/utf8"

	cm "zombiezen.com/go/commonmark"
)

// Reference HTML renderer (C10): a direct recursive reading of a parsed tree
// through the public node accessors only (Kind, Child, Text, LinkDestination,
// ...). It never calls the renderer, Walk or the parser.

// RenderConfig mirrors the HTMLRenderer options.
type RenderConfig struct {
	SoftBreak int // 0 preserve, 1 space, 2 harden
	IgnoreRaw bool
	Refs      cm.ReferenceMap
}

// escText escapes text content (the renderer's documented escape set for text).
func escText(sb *strings.Builder, s string) {
	for i := 0; i < len(s); i++ {
		switch s[i] {
		case '&':
			sb.WriteString("&amp;")
		case '\'':
			sb.WriteString("&#39;")
		case '<':
			sb.WriteString("&lt;")
		case '>':
			sb.WriteString("&gt;")
		case '"':
			sb.WriteString("&quot;")
		default:
			sb.WriteByte(s[i])
		}
	}
}

// escAttr escapes an attribute value (html.EscapeString's set and spellings).
func escAttr(sb *strings.Builder, s string) {
	for i := 0; i < len(s); i++ {
		switch s[i] {
		case '&':
			sb.WriteString("&amp;")
		case '\'':
			sb.WriteString("&#39;")
		case '<':
			sb.WriteString("&lt;")
		case '>':
			sb.WriteString("&gt;")
		case '"':
			sb.WriteString("&#34;")
		default:
			sb.WriteByte(s[i])
		}
	}
}

// NormURI is the reference for NormalizeURI as documented: keep RFC 3986
// reserved and unreserved characters and well-formed percent escapes, encode
// a lone '%' as %25 and everything else as upper-case percent-encoded UTF-8
// (an invalid byte as U+FFFD, like ranging over a Go string does).
func NormURI(s string) string {
	const safe = ";/?:@&=+$,-_.!~*'()#"
	var sb strings.Builder
	for i := 0; i < len(s); {
		c := s[i]
		switch {
		case c == '%':
			if i+2 < len(s) && IsHexDigit(s[i+1]) && IsHexDigit(s[i+2]) {
				sb.WriteString(s[i : i+3])
				i += 3
				continue
			}
			sb.WriteString("%25")
			i++
		case IsASCIILetter(c) || IsASCIIDigit(c) || strings.IndexByte(safe, c) >= 0:
			sb.WriteByte(c)
			i++
		default:
			r, n := utf8.DecodeRuneInString(s[i:])
			var buf [4]byte
			m := utf8.EncodeRune(buf[:], r)
			for _, b := range buf[:m] {
				sb.WriteByte('%')
				sb.WriteByte("0123456789ABCDEF"[b>>4])
				sb.WriteByte("0123456789ABCDEF"[b&15])
			}
			i += n
		}
	}
	return sb.String()
}

type refRenderer struct {
	cfg RenderConfig
	src []byte
	sb  strings.Builder
}

// RenderBlock renders one root block.
func RenderBlock(rb *cm.RootBlock, cfg RenderConfig) string {
	r := &refRenderer{cfg: cfg, src: rb.Source}
	r.block(&rb.Block, nil)
	return r.sb.String()
}

// Render renders a block list: blocks joined by a blank line.
func Render(blocks []*cm.RootBlock, cfg RenderConfig) string {
	parts := make([]string, len(blocks))
	for i, b := range blocks {
		parts[i] = RenderBlock(b, cfg)
	}
	return strings.Join(parts, "\n\n")
}

func (r *refRenderer) children(n cm.Node, parent *cm.Block) {
	for i, k := 0, n.ChildCount(); i < k; i++ {
		c := n.Child(i)
		if b := c.Block(); b != nil {
			r.block(b, parent)
		} else if in := c.Inline(); in != nil {
			r.inline(in)
		}
	}
}

func firstWord(s string) string {
	f := strings.Fields(s)
	if len(f) == 0 {
		return ""
	}
	return f[0]
}

func (r *refRenderer) block(b *cm.Block, parent *cm.Block) {
	w := &r.sb
	switch b.Kind() {
	case cm.ParagraphKind:
		tight := parent != nil && parent.IsTightList()
		if !tight {
			w.WriteString("<p>")
		}
		r.children(b.AsNode(), b)
		if !tight {
			w.WriteString("</p>")
		}
	case cm.ThematicBreakKind:
		w.WriteString("<hr>")
	case cm.ATXHeadingKind, cm.SetextHeadingKind:
		l := b.HeadingLevel()
		if l < 1 || l > 6 {
			l = 6
		}
		w.WriteString("<h" + strconv.Itoa(l) + ">")
		r.children(b.AsNode(), b)
		w.WriteString("</h" + strconv.Itoa(l) + ">")
	case cm.IndentedCodeBlockKind, cm.FencedCodeBlockKind:
		w.WriteString("<pre><code")
		if info := b.InfoString(); info != nil {
			if fw := firstWord(info.Text(r.src)); fw != "" {
				w.WriteString(` class="language-`)
				escAttr(w, fw)
				w.WriteString(`"`)
			}
		}
		w.WriteString(">")
		r.children(b.AsNode(), b)
		w.WriteString("</code></pre>")
	case cm.BlockQuoteKind:
		w.WriteString("<blockquote>")
		r.children(b.AsNode(), b)
		w.WriteString("</blockquote>")
	case cm.ListKind:
		if b.IsOrderedList() {
			w.WriteString("<ol")
			if b.ChildCount() > 0 {
				if it := b.Child(0).Block(); it != nil {
					if n := it.ListItemNumber(r.src); n >= 0 && n != 1 {
						w.WriteString(` start="` + strconv.Itoa(n) + `"`)
					}
				}
			}
			w.WriteString(">")
			r.children(b.AsNode(), b)
			w.WriteString("</ol>")
		} else {
			w.WriteString("<ul>")
			r.children(b.AsNode(), b)
			w.WriteString("</ul>")
		}
	case cm.ListItemKind:
		w.WriteString("<li>")
		r.children(b.AsNode(), b)
		w.WriteString("</li>")
	case cm.HTMLBlockKind:
		if !r.cfg.IgnoreRaw {
			r.children(b.AsNode(), b)
		}
	case cm.ListMarkerKind, cm.LinkReferenceDefinitionKind:
		// nothing
	}
}

func (r *refRenderer) linkDef(in *cm.Inline) cm.LinkDefinition {
	if ref := in.LinkReference(); ref != "" {
		return r.cfg.Refs[ref]
	}
	t := in.LinkTitle()
	d := cm.LinkDefinition{TitlePresent: t != nil}
	if dst := in.LinkDestination(); dst != nil {
		d.Destination = dst.Text(r.src)
	}
	if t != nil {
		d.Title = t.Text(r.src)
	}
	return d
}

// altText is the plain-text content of an image description.
func (r *refRenderer) altText(in *cm.Inline, w *strings.Builder) {
	for i, k := 0, in.ChildCount(); i < k; i++ {
		c := in.Child(i)
		switch c.Kind() {
		case cm.TextKind:
			escText(w, c.Text(r.src))
		case cm.CharacterReferenceKind:
			sp := c.Span()
			w.Write(r.src[sp.Start:sp.End])
		case cm.IndentKind, cm.SoftLineBreakKind, cm.HardLineBreakKind:
			w.WriteByte(' ')
		case cm.LinkDestinationKind, cm.LinkTitleKind, cm.LinkLabelKind:
		default:
			r.altText(c, w)
		}
	}
}

func (r *refRenderer) inline(in *cm.Inline) {
	w := &r.sb
	switch in.Kind() {
	case cm.TextKind, cm.UnparsedKind:
		sp := in.Span()
		escText(w, string(r.src[sp.Start:sp.End]))
	case cm.CharacterReferenceKind:
		sp := in.Span()
		w.Write(r.src[sp.Start:sp.End])
	case cm.RawHTMLKind:
		if !r.cfg.IgnoreRaw {
			w.WriteString(in.Text(r.src))
		}
	case cm.SoftLineBreakKind:
		switch r.cfg.SoftBreak {
		case 2:
			w.WriteString("<br>\n")
		case 1:
			w.WriteByte(' ')
		default:
			w.WriteString(in.Text(r.src))
		}
	case cm.HardLineBreakKind:
		w.WriteString("<br>\n")
	case cm.EmphasisKind:
		w.WriteString("<em>")
		r.children(in.AsNode(), nil)
		w.WriteString("</em>")
	case cm.StrongKind:
		w.WriteString("<strong>")
		r.children(in.AsNode(), nil)
		w.WriteString("</strong>")
	case cm.CodeSpanKind:
		w.WriteString("<code>")
		r.children(in.AsNode(), nil)
		w.WriteString("</code>")
	case cm.LinkKind:
		d := r.linkDef(in)
		w.WriteString(`<a href="`)
		escAttr(w, NormURI(d.Destination))
		w.WriteString(`"`)
		if d.TitlePresent {
			w.WriteString(` title="`)
			escAttr(w, d.Title)
			w.WriteString(`"`)
		}
		w.WriteString(">")
		r.children(in.AsNode(), nil)
		w.WriteString("</a>")
	case cm.ImageKind:
		d := r.linkDef(in)
		w.WriteString(`<img src="`)
		escAttr(w, NormURI(d.Destination))
		w.WriteString(`"`)
		if d.TitlePresent {
			w.WriteString(` title="`)
			escAttr(w, d.Title)
			w.WriteString(`"`)
		}
		w.WriteString(` alt="`)
		r.altText(in, w)
		w.WriteString(`">`)
	case cm.AutolinkKind:
		dest := ""
		if in.ChildCount() > 0 {
			dest = in.Child(0).Text(r.src)
		}
		w.WriteString(`<a href="`)
		if IsEmailAddress(dest) {
			w.WriteString("mailto:")
		}
		escAttr(w, NormURI(dest))
		w.WriteString(`">`)
		escAttr(w, dest)
		w.WriteString("</a>")
	case cm.IndentKind:
		for i := 0; i < in.IndentWidth(); i++ {
			w.WriteByte(' ')
		}
	case cm.HTMLTagKind:
		r.children(in.AsNode(), nil)
	case cm.InfoStringKind, cm.LinkDestinationKind, cm.LinkTitleKind, cm.LinkLabelKind:
		// nothing
	}
}
