package ref

import (
	"regexp"
	"strings"
	"unicode"
)

// Reference line recognisers, written from the CommonMark 0.30 text as regular
// definitions. All take one line whose leading indentation has been stripped
// by the caller (as the library's recognisers do); a trailing line ending
// (LF, CR or CRLF) is allowed and ignored.

// StripEOL removes one trailing line ending.
func StripEOL(line string) string {
	if strings.HasSuffix(line, "\r\n") {
		return line[:len(line)-2]
	}
	if strings.HasSuffix(line, "\n") || strings.HasSuffix(line, "\r") {
		return line[:len(line)-1]
	}
	return line
}

// IsLine reports whether s is a single line: no line ending except at its end.
func IsLine(s string) bool {
	return !strings.ContainsAny(StripEOL(s), "\r\n")
}

var reThematic = regexp.MustCompile(`^(?:(?:\*[ \t]*){3,}|(?:-[ \t]*){3,}|(?:_[ \t]*){3,})$`)

// ThematicBreak returns the index just after the last break character, or -1.
// Spec 4.1: three or more matching -, _ or * characters, each followed
// optionally by any number of spaces or tabs.
func ThematicBreak(line string) int {
	l := StripEOL(line)
	if !reThematic.MatchString(l) {
		return -1
	}
	return strings.LastIndexAny(l, "*-_") + 1
}

// ATXHeading returns the level (0 if the line is not an ATX heading) and the
// raw content, stripped of leading and trailing spaces and tabs, with the
// optional closing sequence removed, as a [start,end) range of line.
// Spec 4.2: opening sequence of 1-6 # followed by space/tab or end of line;
// optional closing sequence of any number of # preceded by space/tab and
// followed by spaces/tabs only.
func ATXHeading(line string) (level, start, end int) {
	l := StripEOL(line)
	for level < len(l) && l[level] == '#' {
		level++
	}
	if level == 0 || level > 6 {
		return 0, 0, 0
	}
	if level < len(l) && l[level] != ' ' && l[level] != '\t' {
		return 0, 0, 0
	}
	rest := l[level:] // empty, or begins with a space or tab
	r := strings.TrimRight(rest, " \t")
	if t := strings.TrimRight(r, "#"); len(t) < len(r) && len(t) > 0 && (t[len(t)-1] == ' ' || t[len(t)-1] == '\t') {
		r = t // closing sequence removed
	}
	r = strings.TrimRight(r, " \t")
	lead := len(r) - len(strings.TrimLeft(r, " \t"))
	start = level + lead
	end = level + len(r)
	if end < start {
		end = start
	}
	return level, start, end
}

var reSetext = regexp.MustCompile(`^(=+|-+)[ \t]*$`)

// SetextUnderline returns 1 for an = underline, 2 for a - underline, else 0.
func SetextUnderline(line string) int {
	l := StripEOL(line)
	m := reSetext.FindStringSubmatch(l)
	if m == nil {
		return 0
	}
	if m[1][0] == '=' {
		return 1
	}
	return 2
}

var (
	reFenceTick  = regexp.MustCompile("^(`{3,})([^`]*)$")
	reFenceTilde = regexp.MustCompile("^(~{3,})(.*)$")
)

// CodeFence returns the fence character, its length (0 if the line does not
// open with a code fence) and the info string (trimmed of spaces and tabs).
// Spec 4.5.
func CodeFence(line string) (char byte, n int, info string) {
	l := StripEOL(line)
	m := reFenceTick.FindStringSubmatch(l)
	if m == nil {
		m = reFenceTilde.FindStringSubmatch(l)
	}
	if m == nil {
		return 0, 0, ""
	}
	return m[1][0], len(m[1]), strings.Trim(m[2], " \t")
}

var (
	reBullet  = regexp.MustCompile(`^([-+*])(?:[ \t]|$)`)
	reOrdered = regexp.MustCompile(`^([0-9]{1,9})([.)])(?:[ \t]|$)`)
)

// ListMarker returns the delimiter (bullet character, '.' or ')'), the start
// number (0 for bullets) and the marker's width, or width -1 if the line does
// not begin with a list marker followed by a space, a tab or the end of line.
// Spec 5.2.
func ListMarker(line string) (delim byte, number, width int) {
	l := StripEOL(line)
	if m := reBullet.FindStringSubmatch(l); m != nil {
		return m[1][0], 0, 1
	}
	if m := reOrdered.FindStringSubmatch(l); m != nil {
		n := 0
		for _, c := range m[1] {
			n = n*10 + int(c-'0')
		}
		return m[2][0], n, len(m[1]) + 1
	}
	return 0, 0, -1
}

// Byte classes, as explicit sets from spec section 2.1.
const asciiPunct = "!\"#$%&'()*+,-./:;<=>?@[\\]^_`{|}~"

func IsASCIIPunctuation(c byte) bool { return strings.IndexByte(asciiPunct, c) >= 0 }
func IsHexDigit(c byte) bool         { return strings.IndexByte("0123456789abcdefABCDEF", c) >= 0 }
func IsASCIIControl(c byte) bool     { return c <= 0x1f || c == 0x7f }
func IsASCIILetter(c byte) bool {
	return strings.IndexByte("abcdefghijklmnopqrstuvwxyzABCDEFGHIJKLMNOPQRSTUVWXYZ", c) >= 0
}
func IsASCIIDigit(c byte) bool           { return strings.IndexByte("0123456789", c) >= 0 }
func IsSpaceTabOrLineEnding(c byte) bool { return c == ' ' || c == '\t' || c == '\n' || c == '\r' }

// IsUnicodeWhitespace: "any code point in the Unicode Zs general category, or
// a tab (U+0009), line feed (U+000A), form feed (U+000C), or carriage return
// (U+000D)".
func IsUnicodeWhitespace(r rune) bool {
	return r == '\t' || r == '\n' || r == '\f' || r == '\r' || unicode.Is(unicode.Zs, r)
}

// IsUnicodePunctuation: "an ASCII punctuation character or anything in the
// general Unicode categories Pc, Pd, Pe, Pf, Pi, Po, or Ps".
func IsUnicodePunctuation(r rune) bool {
	if r < 0x80 {
		return IsASCIIPunctuation(byte(r))
	}
	return unicode.Is(unicode.Pc, r) || unicode.Is(unicode.Pd, r) || unicode.Is(unicode.Pe, r) ||
		unicode.Is(unicode.Pf, r) || unicode.Is(unicode.Pi, r) || unicode.Is(unicode.Po, r) || unicode.Is(unicode.Ps, r)
}

// reEmail is the e-mail address regular expression of spec 6.5, verbatim.
var reEmail = regexp.MustCompile("^[a-zA-Z0-9.!#$%&'*+/=?^_`{|}~-]+@[a-zA-Z0-9](?:[a-zA-Z0-9-]{0,61}[a-zA-Z0-9])?(?:\\.[a-zA-Z0-9](?:[a-zA-Z0-9-]{0,61}[a-zA-Z0-9])?)*$")

func IsEmailAddress(s string) bool { return reEmail.MatchString(s) }

// reAbsURI: scheme of 2-32 characters beginning with a letter, ':', then any
// characters other than ASCII control characters, space, < and >.
var reAbsURI = regexp.MustCompile(`^[A-Za-z][A-Za-z0-9+.\-]{1,31}:[^\x00-\x20\x7f<>]*$`)

// Autolink returns the length of the autolink at the start of s ("<" ... ">"), or -1.
func Autolink(s string) int {
	if len(s) < 2 || s[0] != '<' {
		return -1
	}
	gt := strings.IndexByte(s, '>')
	if gt < 0 {
		return -1
	}
	body := s[1:gt]
	if reAbsURI.MatchString(body) || IsEmailAddress(body) {
		return gt + 1
	}
	return -1
}

var (
	reDecRef = regexp.MustCompile(`^&#[0-9]{1,7};`)
	reHexRef = regexp.MustCompile(`^&#[xX][0-9a-fA-F]{1,6};`)
	reEntRef = regexp.MustCompile(`^&([A-Za-z0-9]+);`)
)

// CharacterReference returns the length of the entity or numeric character
// reference at the start of s, or -1. Spec 2.5.
func CharacterReference(s string) int {
	if m := reDecRef.FindString(s); m != "" {
		return len(m)
	}
	if m := reHexRef.FindString(s); m != "" {
		return len(m)
	}
	if m := reEntRef.FindStringSubmatch(s); m != nil && EntityNames[m[1]] {
		return len(m[0])
	}
	return -1
}

// URI output alphabet of RFC 3986: unreserved and reserved characters.
const uriChars = "abcdefghijklmnopqrstuvwxyzABCDEFGHIJKLMNOPQRSTUVWXYZ0123456789-._~:/?#[]@!$&'()*+,;="

// WellFormedURI reports whether s consists only of RFC 3986 reserved and
// unreserved characters and well-formed percent escapes; otherwise it returns
// the offending index.
func WellFormedURI(s string) (bool, int) {
	for i := 0; i < len(s); i++ {
		c := s[i]
		if c == '%' {
			if i+2 >= len(s) || !IsHexDigit(s[i+1]) || !IsHexDigit(s[i+2]) {
				return false, i
			}
			i += 2
			continue
		}
		if strings.IndexByte(uriChars, c) < 0 {
			return false, i
		}
	}
	return true, -1
}
