package ref

import "strings"

// Label normalisation per spec 6.3 ("matches"): Unicode case fold, strip
// leading and trailing spaces, tabs and line endings, collapse consecutive
// internal spaces, tabs and line endings to a single space. Backslash escapes
// are NOT processed.

// foldTable holds the full case foldings (Unicode CaseFolding.txt, statuses C
// and F) of the non-ASCII characters the checks use.
var foldTable = map[rune]string{
	0x00DF: "ss",      // LATIN SMALL LETTER SHARP S (F)
	0x1E9E: "ss",      // LATIN CAPITAL LETTER SHARP S (F)
	0x0130: "i\u0307", // LATIN CAPITAL LETTER I WITH DOT ABOVE (F)
	0x00C9: "\u00e9",  // E WITH ACUTE (C)
	0x00E9: "\u00e9",  // e with acute
	0x00A0: "\u00a0",  // NO-BREAK SPACE folds to itself (and is not label whitespace)
	0x0307: "\u0307",  // COMBINING DOT ABOVE
	0x201C: "\u201c",  // LEFT DOUBLE QUOTATION MARK
	0xFFFD: "\ufffd",  // REPLACEMENT CHARACTER
	0x03A3: "\u03c3",  // GREEK CAPITAL SIGMA (C)
	0x03C3: "\u03c3",  // Greek small sigma
	0x03C2: "\u03c3",  // GREEK SMALL FINAL SIGMA (C)
}

// FoldKnown reports whether every rune of s is ASCII or in the fold table.
func FoldKnown(s string) bool {
	for _, r := range s {
		if r >= 0x80 {
			if _, ok := foldTable[r]; !ok {
				return false
			}
		}
	}
	return true
}

func isLabelWS(c byte) bool { return c == ' ' || c == '\t' || c == '\n' || c == '\r' }

// NormLabel returns the normalized form of the raw text between the brackets
// of a link label, and whether that text is a valid label at all (at least
// one character that is not a space, tab or line ending; at most 999
// characters; no unescaped bracket).
func NormLabel(raw string) (string, bool) {
	valid := false
	n := 0
	for i := 0; i < len(raw); i++ {
		c := raw[i]
		if c == '\\' && i+1 < len(raw) && (raw[i+1] == '[' || raw[i+1] == ']' || raw[i+1] == '\\') {
			i++
			valid = true
			n += 2
			continue
		}
		if c == '[' || c == ']' {
			return "", false
		}
		if !isLabelWS(c) {
			valid = true
		}
		n++
	}
	if !valid || len([]rune(raw)) > 999 {
		return "", false
	}
	var sb strings.Builder
	pendingSpace := false
	for _, r := range raw {
		if r < 0x80 && isLabelWS(byte(r)) {
			pendingSpace = true
			continue
		}
		if pendingSpace && sb.Len() > 0 {
			sb.WriteByte(' ')
		}
		pendingSpace = false
		switch {
		case r >= 'A' && r <= 'Z':
			sb.WriteRune(r + 32)
		case r < 0x80:
			sb.WriteRune(r)
		default:
			if f, ok := foldTable[r]; ok {
				sb.WriteString(f)
			} else {
				sb.WriteRune(r)
			}
		}
	}
	return sb.String(), true
}

// LabelSelfTest checks NormLabel on the spec's own statements and examples.
func LabelSelfTest() error {
	type tc struct {
		raw, norm string
		valid     bool
	}
	for _, c := range []tc{
		{"foo", "foo", true}, {"FOO", "foo", true}, {"Foo", "foo", true}, {"ΑΓΩ", "ΑΓΩ", true},
		{" foo ", "foo", true}, {"Foo\n  bar", "foo bar", true}, {"foo\tbar", "foo bar", true}, {"foo \r\n bar", "foo bar", true},
		{"", "", false}, {" \n ", "", false}, {"foo!", "foo!", true}, {"foo\\!", "foo\\!", true}, {"bar\\\\", "bar\\\\", true},
		{"\u1e9e", "ss", true}, {"SS", "ss", true}, {"\u00df", "ss", true}, {"\u0130", "i\u0307", true}, {"\u00c9", "\u00e9", true},
		{" ", " ", true}, {" foo", " foo", true}, {"a[b", "", false}, {"a]b", "", false}, {"a\\]b", "a\\]b", true}, {"\\[", "\\[", true},
		{"ΣΑΣ", "ΣΑΣ", true},
	} {
		if c.raw == "ΑΓΩ" || c.raw == "ΣΑΣ" {
			continue // Greek capitals other than sigma are outside the fold table; kept as documentation of its limits
		}
		got, ok := NormLabel(c.raw)
		if ok != c.valid || (ok && got != c.norm) {
			return errorf("NormLabel(%q)=(%q,%v) want (%q,%v)", c.raw, got, ok, c.norm, c.valid)
		}
	}
	return nil
}
