package ref

import (
	"fmt"
	"strings"
)

// Link reference definitions, CommonMark 0.30 section 4.7, transcribed from the
// prose: label, colon, optional white space including up to one line ending,
// destination, optional title separated by white space (on the same or on the
// next line), nothing else on the line; a title on the next line that cannot be
// completed leaves a definition without title. Never consults the implementation.

// RefDef is one recognised definition.
type RefDef struct {
	Label    string
	Dest     string
	Title    string
	HasTitle bool
}

func skipSpacesTabs(s string, i int) int {
	for i < len(s) && (s[i] == ' ' || s[i] == '\t') {
		i++
	}
	return i
}

func eolLen(s string, i int) int {
	if i < len(s) && s[i] == '\r' {
		if i+1 < len(s) && s[i+1] == '\n' {
			return 2
		}
		return 1
	}
	if i < len(s) && s[i] == '\n' {
		return 1
	}
	return 0
}

// RefDefAt tries to read one definition at the start of t (the text of a
// paragraph from the start of one of its lines). n is the number of bytes the
// definition takes, its final line ending included.
func RefDefAt(t string) (d RefDef, n int, ok bool) {
	p := skipSpacesTabs(t, 0)
	if p >= len(t) || t[p] != '[' {
		return d, 0, false
	}
	j := p + 1
	for {
		if j >= len(t) || j-p > 1000 {
			return d, 0, false
		}
		c := t[j]
		if c == '\\' && j+1 < len(t) && IsASCIIPunctuation(t[j+1]) {
			j += 2
			continue
		}
		if c == '[' {
			return d, 0, false
		}
		if c == ']' {
			break
		}
		j++
	}
	d.Label = t[p+1 : j]
	if strings.Trim(d.Label, " \t\r\n") == "" {
		return d, 0, false
	}
	p = j + 1
	if p >= len(t) || t[p] != ':' {
		return d, 0, false
	}
	p = skipLinkWS(t, p+1)
	if p >= len(t) {
		return d, 0, false
	}
	dn, dest, dok := linkDestinationAt(t, p)
	if !dok || dn == 0 {
		return d, 0, false
	}
	d.Dest = dest
	p += dn
	q := skipSpacesTabs(t, p)
	if q < len(t) && eolLen(t, q) == 0 {
		// something follows on the destination's line: it has to be a title,
		// separated by white space, with nothing after it on its last line
		if q == p {
			return d, 0, false
		}
		tn, title := linkTitleAt(t, q)
		if tn == 0 {
			return d, 0, false
		}
		r := skipSpacesTabs(t, q+tn)
		if r < len(t) && eolLen(t, r) == 0 {
			return d, 0, false
		}
		d.Title, d.HasTitle = title, true
		return d, r + eolLen(t, r), true
	}
	lineEnd := q + eolLen(t, q)
	// a title may follow on the next line
	q2 := skipSpacesTabs(t, lineEnd)
	if tn, title := linkTitleAt(t, q2); tn > 0 && lineEnd > q {
		r := skipSpacesTabs(t, q2+tn)
		if r >= len(t) || eolLen(t, r) > 0 {
			d.Title, d.HasTitle = title, true
			return d, r + eolLen(t, r), true
		}
	}
	return d, lineEnd, true
}

// RefDefs reads the definitions at the start of a paragraph's text and returns
// them with the offset at which the remaining paragraph text begins.
func RefDefs(para string) (defs []RefDef, rest int) {
	pos := 0
	for pos < len(para) {
		d, n, ok := RefDefAt(para[pos:])
		if !ok {
			break
		}
		defs = append(defs, d)
		pos += n
	}
	return defs, pos
}

// RefDefSelfTest checks RefDefs on paragraphs taken from the examples of the
// spec's "Link reference definitions" section (expected values read off the
// spec's HTML by hand).
func RefDefSelfTest() error {
	type exp struct {
		para string
		defs []RefDef
		rest string
	}
	cases := []exp{
		{"[foo]: /url \"title\"\n", []RefDef{{"foo", "/url", "title", true}}, ""},
		{"   [foo]: \n      /url  \n           'the title'  \n", []RefDef{{"foo", "/url", "the title", true}}, ""},
		{"[Foo*bar\\]]:my_(url) 'title (with parens)'\n", []RefDef{{"Foo*bar\\]", "my_(url)", "title (with parens)", true}}, ""},
		{"[Foo bar]:\n<my url>\n'title'\n", []RefDef{{"Foo bar", "my url", "title", true}}, ""},
		{"[foo]: /url '\ntitle\nline1\nline2\n'\n", []RefDef{{"foo", "/url", "\ntitle\nline1\nline2\n", true}}, ""},
		{"[foo]: /url 'title\n", nil, "[foo]: /url 'title\n"},
		{"[foo]:\n/url\n", []RefDef{{"foo", "/url", "", false}}, ""},
		{"[foo]:\n", nil, "[foo]:\n"},
		{"[foo]: <>\n", []RefDef{{"foo", "", "", false}}, ""},
		{"[foo]: <bar>(baz)\n", nil, "[foo]: <bar>(baz)\n"},
		{"[foo]: /url\\bar\\*baz \"foo\\\"bar\\baz\"\n", []RefDef{{"foo", "/url\\bar*baz", "foo\"bar\\baz", true}}, ""},
		{"[foo]: first\n[foo]: second\n", []RefDef{{"foo", "first", "", false}, {"foo", "second", "", false}}, ""},
		{"[\nfoo\n]: /url\nbar\n", []RefDef{{"\nfoo\n", "/url", "", false}}, "bar\n"},
		{"[foo]: /url \"title\" ok\n", nil, "[foo]: /url \"title\" ok\n"},
		{"[foo]: /url\n\"title\" ok\n", []RefDef{{"foo", "/url", "", false}}, "\"title\" ok\n"},
		{"[foo]: /foo-url \"foo\"\n[bar]: /bar-url\n  \"bar\"\n[baz]: /baz-url\n", []RefDef{{"foo", "/foo-url", "foo", true}, {"bar", "/bar-url", "bar", true}, {"baz", "/baz-url", "", false}}, ""},
		{"Foo\n[bar]: /baz\n", nil, "Foo\n[bar]: /baz\n"},
	}
	for _, c := range cases {
		defs, rest := RefDefs(c.para)
		if fmt.Sprintf("%q", defs) != fmt.Sprintf("%q", c.defs) || c.para[rest:] != c.rest {
			return fmt.Errorf("definition grammar reference: paragraph %q: got %q and rest %q, the spec's examples say %q and rest %q", c.para, defs, c.para[rest:], c.defs, c.rest)
		}
	}
	return nil
}
