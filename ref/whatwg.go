package ref

import "strings"

// StartTags tokenizes s with the WHATWG HTML tokenizer restricted to the
// data-state family (data, tag open, end tag open, tag name, the attribute
// states, self-closing start tag, bogus comment, markup declaration open, the
// comment states, DOCTYPE as one opaque token, "<![CDATA[" as a bogus comment
// as in HTML content) and returns the lower-cased names of the start tags it
// emits, in order. No tree construction takes place, so the tokenizer never
// leaves the data-state family (https://html.spec.whatwg.org/multipage/parsing.html#tokenization).
func StartTags(s string) []string {
	const (
		data = iota
		tagOpen
		endTagOpen
		tagName
		beforeAttrName
		attrName
		afterAttrName
		beforeAttrValue
		attrValueDQ
		attrValueSQ
		attrValueUQ
		afterAttrValueQ
		selfClosing
		bogusComment
		markupDecl
		commentStart
		commentStartDash
		comment
		commentLT
		commentLTBang
		commentLTBangDash
		commentLTBangDashDash
		commentEndDash
		commentEnd
		commentEndBang
		doctype
	)
	var out []string
	state := data
	var name []byte
	isEnd := false
	emit := func() {
		if !isEnd {
			out = append(out, string(name))
		}
		state = data
	}
	isWS := func(c byte) bool { return c == '\t' || c == '\n' || c == '\f' || c == ' ' || c == '\r' }
	lower := func(c byte) byte {
		if 'A' <= c && c <= 'Z' {
			return c + 32
		}
		return c
	}
	for i := 0; i < len(s); {
		c := s[i]
		switch state {
		case data:
			if c == '<' {
				state = tagOpen
			}
			i++
		case tagOpen:
			switch {
			case c == '!':
				state = markupDecl
				i++
			case c == '/':
				state = endTagOpen
				i++
			case IsASCIILetter(c):
				name = name[:0]
				isEnd = false
				state = tagName
			case c == '?':
				state = bogusComment
			default:
				state = data // '<' is text; reconsume
			}
		case endTagOpen:
			switch {
			case IsASCIILetter(c):
				name = name[:0]
				isEnd = true
				state = tagName
			case c == '>':
				state = data
				i++
			default:
				state = bogusComment
			}
		case tagName:
			switch {
			case isWS(c):
				state = beforeAttrName
				i++
			case c == '/':
				state = selfClosing
				i++
			case c == '>':
				i++
				emit()
			default:
				name = append(name, lower(c))
				i++
			}
		case beforeAttrName:
			switch {
			case isWS(c):
				i++
			case c == '/' || c == '>':
				state = afterAttrName
			default:
				state = attrName // '=' starts a name too
				i++
			}
		case attrName:
			switch {
			case isWS(c) || c == '/' || c == '>':
				state = afterAttrName
			case c == '=':
				state = beforeAttrValue
				i++
			default:
				i++
			}
		case afterAttrName:
			switch {
			case isWS(c):
				i++
			case c == '/':
				state = selfClosing
				i++
			case c == '=':
				state = beforeAttrValue
				i++
			case c == '>':
				i++
				emit()
			default:
				state = attrName
			}
		case beforeAttrValue:
			switch {
			case isWS(c):
				i++
			case c == '"':
				state = attrValueDQ
				i++
			case c == '\'':
				state = attrValueSQ
				i++
			case c == '>':
				i++
				emit()
			default:
				state = attrValueUQ
			}
		case attrValueDQ:
			if c == '"' {
				state = afterAttrValueQ
			}
			i++
		case attrValueSQ:
			if c == '\'' {
				state = afterAttrValueQ
			}
			i++
		case attrValueUQ:
			switch {
			case isWS(c):
				state = beforeAttrName
				i++
			case c == '>':
				i++
				emit()
			default:
				i++
			}
		case afterAttrValueQ:
			switch {
			case isWS(c):
				state = beforeAttrName
				i++
			case c == '/':
				state = selfClosing
				i++
			case c == '>':
				i++
				emit()
			default:
				state = beforeAttrName
			}
		case selfClosing:
			if c == '>' {
				i++
				emit()
			} else {
				state = beforeAttrName
			}
		case bogusComment:
			if c == '>' {
				state = data
			}
			i++
		case markupDecl:
			rest := s[i:]
			switch {
			case strings.HasPrefix(rest, "--"):
				state = commentStart
				i += 2
			case len(rest) >= 7 && strings.EqualFold(rest[:7], "doctype"):
				state = doctype
				i += 7
			case strings.HasPrefix(rest, "[CDATA["):
				state = bogusComment // HTML content: cdata-in-html-content
				i += 7
			default:
				state = bogusComment
			}
		case commentStart:
			switch c {
			case '-':
				state = commentStartDash
				i++
			case '>':
				state = data
				i++
			default:
				state = comment
			}
		case commentStartDash:
			switch c {
			case '-':
				state = commentEnd
				i++
			case '>':
				state = data
				i++
			default:
				state = comment
			}
		case comment:
			switch c {
			case '<':
				state = commentLT
			case '-':
				state = commentEndDash
			}
			i++
		case commentLT:
			switch c {
			case '!':
				state = commentLTBang
				i++
			case '<':
				i++
			default:
				state = comment
			}
		case commentLTBang:
			if c == '-' {
				state = commentLTBangDash
				i++
			} else {
				state = comment
			}
		case commentLTBangDash:
			if c == '-' {
				state = commentLTBangDashDash
				i++
			} else {
				state = commentEndDash
			}
		case commentLTBangDashDash:
			state = commentEnd
		case commentEndDash:
			if c == '-' {
				state = commentEnd
				i++
			} else {
				state = comment
			}
		case commentEnd:
			switch c {
			case '>':
				state = data
				i++
			case '!':
				state = commentEndBang
				i++
			case '-':
				i++
			default:
				state = comment
			}
		case commentEndBang:
			switch c {
			case '-':
				state = commentEndDash
				i++
			case '>':
				state = data
				i++
			default:
				state = comment
			}
		case doctype:
			if c == '>' {
				state = data
			}
			i++
		}
	}
	return out
}
