package ref

import "fmt"

func errorf(format string, args ...any) error { return fmt.Errorf(format, args...) }
