package ref

import (
	"fmt"
	"strings"
)

// Inline links, CommonMark 0.30 section 6.3: the part after the link text,
// "(" [destination] [title] ")", transcribed from the prose definitions of
// link destination, link title and inline link. Never consults the implementation.

// InlineLinkTail describes a recognised tail.
type InlineLinkTail struct {
	End      int // index just after the closing parenthesis
	Dest     string
	HasDest  bool
	Title    string
	HasTitle bool
}

func isEOLByte(c byte) bool { return c == '\n' || c == '\r' }

// skipLinkWS skips spaces, tabs and up to one line ending; ok is false if a
// second line ending follows directly (a blank line).
func skipLinkWS(s string, i int) int {
	for i < len(s) && (s[i] == ' ' || s[i] == '\t') {
		i++
	}
	if i < len(s) && isEOLByte(s[i]) {
		if s[i] == '\r' && i+1 < len(s) && s[i+1] == '\n' {
			i++
		}
		i++
		for i < len(s) && (s[i] == ' ' || s[i] == '\t') {
			i++
		}
	}
	return i
}

func unescapeBackslashes(s string) string {
	var sb strings.Builder
	for i := 0; i < len(s); i++ {
		if s[i] == '\\' && i+1 < len(s) && IsASCIIPunctuation(s[i+1]) {
			i++
		}
		sb.WriteByte(s[i])
	}
	return sb.String()
}

// linkDestinationAt parses a link destination at s[i]. n == 0 with ok: no
// destination here (an empty bare destination). ok false: what is here cannot
// be a destination (a "<" that opens no valid pointy destination).
func linkDestinationAt(s string, i int) (n int, text string, ok bool) {
	if i < len(s) && s[i] == '<' {
		j := i + 1
		for j < len(s) {
			switch {
			case s[j] == '\\' && j+1 < len(s) && IsASCIIPunctuation(s[j+1]):
				j += 2
				continue
			case isEOLByte(s[j]) || s[j] == '<':
				return 0, "", false
			case s[j] == '>':
				return j + 1 - i, unescapeBackslashes(s[i+1 : j]), true
			}
			j++
		}
		return 0, "", false
	}
	depth := 0
	j := i
loop:
	for j < len(s) {
		c := s[j]
		switch {
		case c == '\\' && j+1 < len(s) && IsASCIIPunctuation(s[j+1]):
			j += 2
			continue
		case c == ' ' || IsASCIIControl(c):
			break loop
		case c == '(':
			depth++
		case c == ')':
			if depth == 0 {
				break loop
			}
			depth--
		}
		j++
	}
	if depth != 0 {
		return 0, "", false
	}
	return j - i, unescapeBackslashes(s[i:j]), true
}

// linkTitleAt parses a link title at s[i]; n == 0 means none.
func linkTitleAt(s string, i int) (n int, text string) {
	if i >= len(s) {
		return 0, ""
	}
	open := s[i]
	closeq := open
	switch open {
	case '"', '\'':
	case '(':
		closeq = ')'
	default:
		return 0, ""
	}
	for j := i + 1; j < len(s); j++ {
		c := s[j]
		switch {
		case c == '\\' && j+1 < len(s) && IsASCIIPunctuation(s[j+1]):
			j++
		case c == closeq:
			return j + 1 - i, unescapeBackslashes(s[i+1 : j])
		case open == '(' && c == '(':
			return 0, ""
		case isEOLByte(c):
			// a title may span lines but may not contain a blank line
			k := j + 1
			if c == '\r' && k < len(s) && s[k] == '\n' {
				k++
			}
			for k < len(s) && (s[k] == ' ' || s[k] == '\t') {
				k++
			}
			if k >= len(s) || isEOLByte(s[k]) {
				return 0, ""
			}
		}
	}
	return 0, ""
}

// InlineLinkTailAt recognises "(" [destination] [title] ")" at s[i] == '('.
func InlineLinkTailAt(s string, i int) (InlineLinkTail, bool) {
	var t InlineLinkTail
	if i >= len(s) || s[i] != '(' {
		return t, false
	}
	p := skipLinkWS(s, i+1)
	n, dest, ok := linkDestinationAt(s, p)
	if !ok {
		return t, false
	}
	if n > 0 {
		t.Dest, t.HasDest = dest, true
	}
	p += n
	q := skipLinkWS(s, p)
	if n > 0 && q > p {
		// A title must be separated from the destination by spaces, tabs, and up
		// to one line ending. (Without a destination nothing that could open a
		// title can stand here: it would have been read as a bare destination.)
		if tn, title := linkTitleAt(s, q); tn > 0 {
			t.Title, t.HasTitle = title, true
			q = skipLinkWS(s, q+tn)
		}
	}
	if q < len(s) && s[q] == ')' {
		t.End = q + 1
		return t, true
	}
	return InlineLinkTail{}, false
}

// LinkGrammarSelfTest checks InlineLinkTailAt on the examples of the spec's
// "Links" section that consist of one bracketed word followed by a parenthesis
// and use no character references.
func LinkGrammarSelfTest() (int, error) {
	n := 0
	for _, e := range SpecExamples() {
		md := strings.TrimSuffix(e.Markdown, "\n")
		if e.Section != "Links" || strings.Contains(md, "&") || strings.Contains(md, "\u00a0") {
			continue
		}
		k := strings.Index(md, "](")
		if k < 0 || !strings.HasPrefix(md, "[") || strings.ContainsAny(md[1:k], "[]*`<! ") || strings.Count(md, "[") != 1 {
			continue
		}
		t, ok := InlineLinkTailAt(md, k+1)
		wantLink := strings.HasPrefix(e.HTML, "<p><a href=\"")
		if ok != wantLink {
			return n, fmt.Errorf("link grammar reference: spec example %d (%q): recognised=%v, the spec's HTML %q says %v", e.Example, md, ok, e.HTML, wantLink)
		}
		if ok {
			var sb strings.Builder
			sb.WriteString(`<p><a href="`)
			escAttr(&sb, NormURI(t.Dest))
			sb.WriteString(`"`)
			if t.HasTitle {
				sb.WriteString(` title="`)
				escAttr(&sb, t.Title)
				sb.WriteString(`"`)
			}
			sb.WriteString(">" + md[1:k] + "</a>")
			got := strings.ReplaceAll(sb.String(), "&#34;", "&quot;")
			if !strings.HasPrefix(e.HTML, got) {
				return n, fmt.Errorf("link grammar reference: spec example %d (%q): predicted %q, spec says %q", e.Example, md, got, e.HTML)
			}
		}
		n++
	}
	if n < 18 {
		return n, fmt.Errorf("link grammar reference: only %d usable spec examples", n)
	}
	return n, nil
}
