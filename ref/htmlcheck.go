package ref

import (
	"fmt"
	"strings"
)

// Strict scanner for the language the HTML renderer may emit when raw HTML is
// ignored or absent (C07): properly nested start/end tags from a fixed element
// set with attributes from a fixed attribute set, and escaped text.

var safeElements = map[string]bool{
	"p": true, "hr": true, "h1": true, "h2": true, "h3": true, "h4": true, "h5": true, "h6": true,
	"pre": true, "code": true, "blockquote": true, "ol": true, "ul": true, "li": true,
	"em": true, "strong": true, "a": true, "img": true, "br": true,
}

var voidElements = map[string]bool{"hr": true, "br": true, "img": true}

var safeAttrs = map[string]map[string]bool{
	"code": {"class": true},
	"ol":   {"start": true},
	"a":    {"href": true, "title": true},
	"img":  {"src": true, "title": true, "alt": true},
}

// HTMLStats reports what a checked output contained (for non-vacuity counters).
type HTMLStats struct {
	Elements map[string]int
	Attrs    map[string]int
	CharRefs int
}

// checkCharRef checks that s[i] == '&' begins a well-formed character
// reference and returns the index after it.
func checkCharRef(s string, i int, where string) (int, error) {
	j := i + 1
	if j < len(s) && s[j] == '#' {
		j++
		hex := false
		if j < len(s) && (s[j] == 'x' || s[j] == 'X') {
			hex = true
			j++
		}
		start := j
		for j < len(s) && (IsASCIIDigit(s[j]) || (hex && IsHexDigit(s[j]))) {
			j++
		}
		if j == start || j >= len(s) || s[j] != ';' {
			return 0, fmt.Errorf("%s: '&' at byte %d does not begin a well-formed numeric character reference: %q", where, i, excerpt(s, i))
		}
		return j + 1, nil
	}
	start := j
	for j < len(s) && (IsASCIILetter(s[j]) || IsASCIIDigit(s[j])) {
		j++
	}
	if j == start || j >= len(s) || s[j] != ';' || !EntityNames[s[start:j]] {
		return 0, fmt.Errorf("%s: '&' at byte %d does not begin a named character reference of the HTML5 table: %q", where, i, excerpt(s, i))
	}
	return j + 1, nil
}

func excerpt(s string, i int) string {
	a, b := i-12, i+24
	if a < 0 {
		a = 0
	}
	if b > len(s) {
		b = len(s)
	}
	return s[a:b]
}

// CheckSafeHTML returns nil iff out belongs to the renderer's safe output language.
func CheckSafeHTML(out string) (*HTMLStats, error) {
	st := &HTMLStats{Elements: map[string]int{}, Attrs: map[string]int{}}
	var stack []string
	i := 0
	for i < len(out) {
		c := out[i]
		switch {
		case c == '&':
			n, err := checkCharRef(out, i, "text")
			if err != nil {
				return st, err
			}
			st.CharRefs++
			i = n
		case c == '<':
			j := i + 1
			end := false
			if j < len(out) && out[j] == '/' {
				end = true
				j++
			}
			ns := j
			for j < len(out) && (IsASCIILetter(out[j]) || IsASCIIDigit(out[j])) {
				j++
			}
			name := out[ns:j]
			if !safeElements[name] {
				return st, fmt.Errorf("'<' at byte %d opens something that is not a tag of the renderer's element set: %q", i, excerpt(out, i))
			}
			if end {
				if j >= len(out) || out[j] != '>' {
					return st, fmt.Errorf("malformed end tag at byte %d: %q", i, excerpt(out, i))
				}
				if voidElements[name] {
					return st, fmt.Errorf("end tag for void element %s at byte %d", name, i)
				}
				if len(stack) == 0 || stack[len(stack)-1] != name {
					return st, fmt.Errorf("end tag </%s> at byte %d does not match the open element stack %v", name, i, stack)
				}
				stack = stack[:len(stack)-1]
				i = j + 1
				continue
			}
			st.Elements[name]++
			seen := map[string]bool{}
			for {
				if j < len(out) && out[j] == '>' {
					j++
					break
				}
				if strings.HasPrefix(out[j:], " />") && voidElements[name] {
					j += 3
					break
				}
				// One attribute: exactly one space, name, =, quoted value.
				if j >= len(out) || out[j] != ' ' {
					return st, fmt.Errorf("start tag <%s at byte %d: expected ' ' or '>' at byte %d: %q", name, i, j, excerpt(out, j))
				}
				j++
				as := j
				for j < len(out) && IsASCIILetter(out[j]) {
					j++
				}
				attr := out[as:j]
				if !safeAttrs[name][attr] {
					return st, fmt.Errorf("start tag <%s at byte %d carries attribute %q, which is not in the renderer's attribute set: %q", name, i, attr, excerpt(out, as))
				}
				if seen[attr] {
					return st, fmt.Errorf("start tag <%s at byte %d repeats attribute %q", name, i, attr)
				}
				seen[attr] = true
				if !strings.HasPrefix(out[j:], "=\"") {
					return st, fmt.Errorf("attribute %s of <%s at byte %d is not followed by =\": %q", attr, name, i, excerpt(out, j))
				}
				j += 2
				for {
					if j >= len(out) {
						return st, fmt.Errorf("attribute %s of <%s at byte %d: unterminated value", attr, name, i)
					}
					if out[j] == '"' {
						j++
						break
					}
					if out[j] == '<' {
						return st, fmt.Errorf("attribute %s of <%s: raw '<' in the value at byte %d: %q", attr, name, j, excerpt(out, j))
					}
					if out[j] == '&' {
						n, err := checkCharRef(out, j, "attribute "+attr)
						if err != nil {
							return st, err
						}
						st.CharRefs++
						j = n
						continue
					}
					j++
				}
				st.Attrs[name+"."+attr]++
			}
			if !voidElements[name] {
				stack = append(stack, name)
			}
			i = j
		default:
			i++
		}
	}
	if len(stack) != 0 {
		return st, fmt.Errorf("elements left open at the end of the output: %v", stack)
	}
	return st, nil
}

// HTMLCheckSelfTest exercises the scanner on hand-written members and
// non-members of the language.
func HTMLCheckSelfTest() error {
	good := []string{
		"", "<p>a</p>", "<p>a &amp; b &lt; c &gt; d &quot; e &#39; f</p>", "<hr>", "<hr />", "<p>a<br>\nb</p>",
		`<p><a href="/u" title="t &quot;q&quot;">x</a></p>`, `<p><img src="/u" alt="a b" title="t"></p>`, `<p><img src="x" alt=""></p>`,
		`<pre><code class="language-go">x &lt; y</code></pre>`, `<ol start="3"><li>a</li></ol>`, "<ul><li><p>a</p></li></ul>",
		"<blockquote><h1>a</h1></blockquote>\n\n<p><em>a <strong>b</strong></em> <code>c</code></p>", "<p>&copy; &#35; &#x22; &#X1F;</p>", "<p>a > b</p>",
	}
	for _, g := range good {
		if _, err := CheckSafeHTML(g); err != nil {
			return fmt.Errorf("htmlcheck rejects %q: %v", g, err)
		}
	}
	bad := []string{
		"<p>a", "a</p>", "<p><em>a</p></em>", "<script>", "<p>a < b</p>", "<p>a & b</p>", "<p>&notit;</p>", "<p>&#xG1;</p>", "<p>&#;</p>",
		`<img src="x"alt="">`, `<img src="x" alt="" onerror="alert(1)">`, `<img src="x" alt="" onerror="alert(1)">`, `<a href="a"b">x</a>`, `<a href="<">x</a>`,
		`<a  href="x">y</a>`, `<p class="x">a</p>`, "<div>", "<!-- x -->", "<a href='x'>y</a>", `<a href="x" href="y">z</a>`, "</br>", "<p>a</p></p>", "<b>x</b>",
	}
	for _, b := range bad {
		if _, err := CheckSafeHTML(b); err == nil {
			return fmt.Errorf("htmlcheck accepts %q", b)
		}
	}
	return nil
}
