// Package ref holds the reference models ("boring" oracles) of the checks.
// None of them calls the code under verification.
package ref

import (
	"regexp"
	"strings"
)

var reBlankLines = regexp.MustCompile(`\n[ \t\r\n]*\n`)

var blockTags = map[string]bool{
	"p": true, "hr": true, "h1": true, "h2": true, "h3": true, "h4": true, "h5": true, "h6": true,
	"pre": true, "blockquote": true, "ol": true, "ul": true, "li": true,
}

type htmlTok struct {
	tag   bool
	name  string // lower-cased element name for tags ("/" prefix for end tags)
	text  string // the token's bytes
	block bool
}

// tokenizeOutput splits renderer output into tags and text. A "<" starts a
// tag only when followed by a letter or by "/" + letter and a ">" follows.
func tokenizeOutput(s string) []htmlTok {
	var toks []htmlTok
	textStart := 0
	flush := func(end int) {
		if end > textStart {
			toks = append(toks, htmlTok{text: s[textStart:end]})
		}
	}
	for i := 0; i < len(s); {
		if s[i] != '<' {
			i++
			continue
		}
		j := i + 1
		end := false
		if j < len(s) && s[j] == '/' {
			end = true
			j++
		}
		if j >= len(s) || !isLetter(s[j]) {
			i++
			continue
		}
		k := j
		for k < len(s) && (isLetter(s[k]) || (s[k] >= '0' && s[k] <= '9')) {
			k++
		}
		gt := strings.IndexByte(s[k:], '>')
		if gt < 0 {
			i++
			continue
		}
		name := strings.ToLower(s[j:k])
		flush(i)
		t := htmlTok{tag: true, name: name, text: s[i : k+gt+1], block: blockTags[name]}
		if end {
			t.name = "/" + name
		}
		toks = append(toks, t)
		i = k + gt + 1
		textStart = i
	}
	flush(len(s))
	return toks
}

func isLetter(c byte) bool { return 'a' <= c && c <= 'z' || 'A' <= c && c <= 'Z' }

const wsSet = " \t\r\n"

// Norm removes insignificant inter-block whitespace from HTML written by the
// renderer: whitespace-only text between block-level tags, and leading /
// trailing whitespace of text adjacent to a block-level tag or to the start /
// end of the output. The content of <pre> elements is never touched.
// " />" is normalised to ">".
func Norm(s string) string {
	toks := tokenizeOutput(s)
	var sb strings.Builder
	inPre := 0
	for i, t := range toks {
		if t.tag {
			switch t.name {
			case "pre":
				inPre++
			case "/pre":
				if inPre > 0 {
					inPre--
				}
			}
			txt := t.text
			if strings.HasSuffix(txt, " />") {
				txt = txt[:len(txt)-3] + ">"
			}
			sb.WriteString(txt)
			continue
		}
		txt := t.text
		if inPre == 0 {
			// Blank lines only occur between blocks (a blank line ends every
			// inline context), so runs of line endings collapse to one.
			txt = reBlankLines.ReplaceAllString(txt, "\n")
			if i == 0 || (toks[i-1].tag && (toks[i-1].block || toks[i-1].name == "br")) {
				// after a block-level tag, and after a line break element
				// (white space following <br> does not render)
				txt = strings.TrimLeft(txt, wsSet)
			}
			if i == len(toks)-1 || (toks[i+1].tag && toks[i+1].block) {
				txt = strings.TrimRight(txt, wsSet)
			}
		}
		sb.WriteString(txt)
	}
	return sb.String()
}
