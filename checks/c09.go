package checks

import (
	"bytes"
	"fmt"
	"strings"

	"verif/ref"
	"verif/spaces"
	"verif/tree"

	cm "zombiezen.com/go/commonmark"
)

// ---------------------------------------------------------------------------
// C09: quoting or list-indenting a document nests its blocks unchanged.

var c09Plan = []planEntry{
	{spaces.I, 3, 4},
	{spaces.L.Without("\ta\n"), 3, 3},
	{spaces.XRef, 5, 6},
	{spaces.XLink.Without("- "), 5, 7},
	{spaces.XCode, 5, 7},
	{spaces.XHead, 5, 6},
	{spaces.XEol.Without("\t"), 5, 6},
	{spaces.XList.Without("\t"), 5, 6},
	{spaces.XHTML, 4, 5},
	{spaces.XMlRef, 5, 6},
	{spaces.XPhrase, 4, 5},
	{spaces.XMl, 5, 6},
	{spaces.XDefs, 5, 6},
	{spaces.XRefHead.Without("  "), 5, 6},
}

var (
	c09QuotePrefixes = []string{"> ", " > ", "   > ", ">"}
	c09Markers       = []string{"-", "+", "*", "1.", "7)", "007.", "123456789."}
)

// splitLines splits on LF, CRLF and CR, keeping the line endings.
func splitLines(d []byte) [][]byte {
	var lines [][]byte
	start := 0
	for i := 0; i < len(d); i++ {
		switch d[i] {
		case '\n':
			lines = append(lines, d[start:i+1])
			start = i + 1
		case '\r':
			if i+1 < len(d) && d[i+1] == '\n' {
				i++
			}
			lines = append(lines, d[start:i+1])
			start = i + 1
		}
	}
	if start < len(d) {
		lines = append(lines, d[start:])
	}
	return lines
}

func init() {
	register(&Check{
		ID:   "C09",
		Rule: "every tab-free token sequence D up to the stated length over each declared alphabet: (a) every line prefixed with each of '> ', ' > ', '   > ' and, when no line starts with a space, '>'; (b) when D starts with a non-space character and has no whitespace-only line: first line prefixed with each of 7 list markers and N=1..4 spaces, other lines indented by W+N spaces (skipped when the reference recogniser says the new first line is a thematic break); compared on safe-mode HTML and on HTML with raw tags written out, through ref.Norm (and modulo <p> tags for the one-item, hence tight, list), and on the reference map; non-trivial = D has >= 2 lines and contains a construct that spans lines or a container, heading or reference definition",
		Assumptions: []string{
			"safe mode = IgnoreRaw, SoftBreakPreserve; in safe mode every <p> in the output is renderer-made, so dropping <p> and </p> on both sides is exact",
			"lines are split on LF, CRLF and lone CR",
		},
		Run: func(c *Ctx) {
			c.forPlan(c09Plan, func(x *X, d []byte) {
				c09Driver(x, d)
				// Documents with brackets (links, images, reference definitions) also
				// with CRLF and CR line endings: where a definition or a multi-line
				// link part ends relative to a two-byte line ending, behind a prefix.
				if bytes.IndexByte(d, '[') >= 0 {
					for _, v := range eolVariants(d) {
						c09Driver(x, v)
					}
				}
			})
		},
	})
}

// rawSignature lists, in document order, the text of every inline HTML tag and
// of every HTML block as the tree holds it (line breaks as "\n", indent nodes as
// spaces): what a renderer would copy out when raw HTML is enabled.
func rawSignature(blocks []*cm.RootBlock) string {
	var sb strings.Builder
	for _, rb := range blocks {
		tree.Visit(rb.AsNode(), func(n, _ cm.Node, _ int) {
			isTag := n.Inline() != nil && n.Inline().Kind() == cm.HTMLTagKind
			isBlock := n.Block() != nil && n.Block().Kind() == cm.HTMLBlockKind
			if !isTag && !isBlock {
				return
			}
			if isBlock {
				sb.WriteString("[block:")
			} else {
				sb.WriteString("[tag:")
			}
			for i, k := 0, n.ChildCount(); i < k; i++ {
				c := n.Child(i).Inline()
				if c == nil {
					continue
				}
				switch c.Kind() {
				case cm.RawHTMLKind, cm.TextKind:
					sb.WriteString(c.Text(rb.Source))
				case cm.SoftLineBreakKind, cm.HardLineBreakKind:
					sb.WriteString("\n")
				case cm.IndentKind:
					sb.WriteString(strings.Repeat(" ", c.IndentWidth()))
				}
			}
			sb.WriteString("]")
		})
	}
	return sb.String()
}

func dropP(s string) string {
	return strings.ReplaceAll(strings.ReplaceAll(s, "<p>", ""), "</p>", "")
}

func c09Driver(x *X, d []byte) {
	if len(d) == 0 || bytes.IndexByte(d, '\t') >= 0 {
		return
	}
	lines := splitLines(d)
	blocks, refs := cm.Parse(clone(d))
	base := ref.Norm(renderCfg(blocks, refs, cm.SoftBreakPreserve, true))
	// With raw HTML written out as well: inline tags and HTML blocks are contents
	// like any other (a raw tag that spans lines must not pick up the prefix).
	// (Normalised only after wrapping, so that an unterminated raw tag in D meets
	// the same following bytes on both sides.)
	baseRaw := renderCfg(blocks, refs, cm.SoftBreakPreserve, false)
	baseSig := rawSignature(blocks)
	baseRefs := tree.Dump(nil, refs, tree.Refs)
	anyLineStartsWithSpace, anyBlankLine := false, false
	for _, l := range lines {
		if l[0] == ' ' {
			anyLineStartsWithSpace = true
		}
		if len(bytes.TrimRight(l, " \r\n")) == 0 {
			anyBlankLine = true
		}
	}
	// (a) block quotes
	for _, pre := range c09QuotePrefixes {
		if pre == ">" && anyLineStartsWithSpace {
			continue
		}
		var q []byte
		for _, l := range lines {
			q = append(q, pre...)
			q = append(q, l...)
		}
		qb, qr := cm.Parse(q)
		x.Validated()
		cfg := fmt.Sprintf("quote-prefix=%q", pre)
		if len(qb) != 1 || qb[0].Kind() != cm.BlockQuoteKind {
			x.Fail("quote-not-single-blockquote", cfg, d, "prefixed document %q parses to %d root blocks (first kind %v), want exactly one block quote", q, len(qb), kindOf(first(qb)))
			return
		}
		got := ref.Norm(renderCfg(qb, qr, cm.SoftBreakPreserve, true))
		want := "<blockquote>" + base + "</blockquote>"
		if got != want {
			x.Fail("quote-contents-differ", cfg, d, "D renders %q; prefixed document %q renders %q, want %q", base, q, got, want)
			return
		}
		if gotRaw, wantRaw := ref.Norm(renderCfg(qb, qr, cm.SoftBreakPreserve, false)), ref.Norm("<blockquote>"+baseRaw+"</blockquote>"); gotRaw != wantRaw {
			x.Fail("quote-contents-differ", cfg+",raw-html", d, "with raw HTML: D renders %q; prefixed document %q renders %q, want %q", baseRaw, q, gotRaw, wantRaw)
			return
		}
		if r := tree.Dump(nil, qr, tree.Refs); r != baseRefs {
			x.Fail("quote-reference-map-differs", cfg, d, "reference map of D:\n%s\nof the prefixed document %q:\n%s", baseRefs, q, r)
			return
		}
	}
	// (b) list items
	if d[0] != ' ' && !anyBlankLine {
		for _, m := range c09Markers {
			for n := 1; n <= 4; n++ {
				var li []byte
				li = append(li, m...)
				li = append(li, strings.Repeat(" ", n)...)
				li = append(li, lines[0]...)
				if ref.ThematicBreak(string(li)) >= 0 {
					x.Count("list_variants_skipped_thematic_break")
					continue
				}
				ind := strings.Repeat(" ", len(m)+n)
				for _, l := range lines[1:] {
					li = append(li, ind...)
					li = append(li, l...)
				}
				lb, lr := cm.Parse(li)
				x.Validated()
				cfg := fmt.Sprintf("marker=%q,N=%d", m, n)
				if len(lb) != 1 || lb[0].Kind() != cm.ListKind || lb[0].ChildCount() != 1 {
					x.Fail("list-not-single-item", cfg, d, "indented document %q parses to %d root blocks (first kind %v with %d children), want exactly one list with one item", li, len(lb), kindOf(first(lb)), childCount(first(lb)))
					return
				}
				got := ref.Norm(dropP(renderCfg(lb, lr, cm.SoftBreakPreserve, true)))
				var open, closeTag string
				switch m {
				case "-", "+", "*":
					open, closeTag = "<ul>", "</ul>"
				case "1.":
					open, closeTag = "<ol>", "</ol>"
				case "7)", "007.":
					open, closeTag = `<ol start="7">`, "</ol>"
				default:
					open, closeTag = `<ol start="123456789">`, "</ol>"
				}
				want := open + "<li>" + ref.Norm(dropP(base)) + "</li>" + closeTag
				if got != want {
					x.Fail("list-contents-differ", cfg, d, "D renders %q; indented document %q renders (without <p>) %q, want %q", base, li, got, want)
					return
				}
				if gotSig := rawSignature(lb); gotSig != baseSig {
					x.Fail("list-contents-differ", cfg+",raw-html", d, "raw HTML of D (tags and HTML blocks in order): %q; of the indented document %q: %q", baseSig, li, gotSig)
					return
				}
				if r := tree.Dump(nil, lr, tree.Refs); r != baseRefs {
					x.Fail("list-reference-map-differs", cfg, d, "reference map of D:\n%s\nof the indented document %q:\n%s", baseRefs, li, r)
					return
				}
			}
		}
	} else {
		x.Count("docs_list_clause_not_applicable")
	}
	if len(lines) >= 2 {
		nt := len(refs) > 0
		for _, rb := range blocks {
			if rb.Kind() != cm.ParagraphKind {
				nt = true
			}
			tree.Visit(rb.AsNode(), func(n, _ cm.Node, _ int) {
				if i := n.Inline(); i != nil && i.ChildCount() > 0 {
					sp := i.Span()
					if sp.IsValid() && sp.End <= len(rb.Source) && bytes.ContainsAny(rb.Source[sp.Start:sp.End], "\r\n") {
						nt = true
					}
				}
			})
		}
		if nt {
			x.Nontrivial()
		}
	}
	x.Outcome(tree.Hash64(base) ^ tree.HashBytes(d))
	x.Sample(q(d))
}

func first(bs []*cm.RootBlock) *cm.RootBlock {
	if len(bs) == 0 {
		return nil
	}
	return bs[0]
}

func childCount(rb *cm.RootBlock) int {
	if rb == nil {
		return 0
	}
	return rb.ChildCount()
}
