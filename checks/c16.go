package checks

import (
	"bytes"
	"io"

	"verif/spaces"
	"verif/tree"

	cm "zombiezen.com/go/commonmark"
)

// ---------------------------------------------------------------------------
// C16: a root block can be re-parsed on its own.

var c16Plan = []planEntry{
	{spaces.I, 4, 5},
	{spaces.L, 3, 4},
	{spaces.XRef, 5, 6},
	{spaces.XList, 6, 7},
	{spaces.XCode, 6, 7},
	{spaces.XHead, 6, 7},
	{spaces.XLink, 5, 6},
	{spaces.XHTML, 5, 6},
	{spaces.XEol, 5, 6},
	{spaces.B, 5, 6},
	{spaces.XNulRef, 6, 7},
	{spaces.XPhrase, 4, 5},
	{spaces.XRefTail, 5, 6},
	{spaces.XInfo, 4, 5},
	{spaces.XRefHead, 5, 6},
}

func init() {
	register(&Check{
		ID:   "C16",
		Rule: "every token sequence up to the stated length over each declared alphabet is parsed with Parse; every root block except the stated exception is re-parsed alone from its Source with NewBlockParser + Rewrite using the document's reference map; non-trivial = the document has >= 2 root blocks and some re-parsed block was ended by the following line rather than by a blank line or the end of input",
		Assumptions: []string{
			"exception implemented literally: a paragraph whose StartOffset equals the EndOffset of a preceding link-reference-definition root block is skipped (and counted)",
			"compared: kinds, all public accessors, spans and leaf text of every node, and Source",
		},
		Run: func(c *Ctx) {
			c.forPlan(c16Plan, func(x *X, in []byte) {
				c16Driver(x, in)
				// The same document with CRLF and with CR line endings. (A setext heading
				// in the situation of the known finding is judged on the LF spelling
				// only: the finding is identified by its exact failing inputs.)
				for _, v := range eolVariants(in) {
					c16Variant = true
					c16Driver(x, v)
					c16Variant = false
				}
			})
		},
	})
}

// c16Variant is set while the driver runs on a CRLF / CR spelling of an input.
var c16Variant bool

func c16Driver(x *X, in []byte) {
	blocks, refs := cm.Parse(clone(in))
	nt := false
	for i, b := range blocks {
		if b.Kind() == cm.ParagraphKind && i > 0 && blocks[i-1].Kind() == cm.LinkReferenceDefinitionKind && blocks[i-1].EndOffset == b.StartOffset {
			x.Count("blocks_skipped_paragraph_after_refdef")
			continue
		}
		// Failure kinds of a setext heading that continues a paragraph which began
		// with reference definitions carry their own prefix (known finding F-C16-setext).
		pre := ""
		if b.Kind() == cm.SetextHeadingKind && i > 0 && blocks[i-1].Kind() == cm.LinkReferenceDefinitionKind && blocks[i-1].EndOffset == b.StartOffset {
			pre = "setext-after-refdef:"
			if c16Variant {
				continue
			}
		}
		p := cm.NewBlockParser(bytes.NewReader(clone(b.Source)))
		var re []*cm.RootBlock
		var err error
		for len(re) <= len(b.Source)+2 {
			var nb *cm.RootBlock
			nb, err = p.NextBlock()
			if err != nil {
				break
			}
			re = append(re, nb)
		}
		if err != io.EOF {
			x.Fail(pre+"reparse-error", "", in, "re-parsing block %d (%q) ended with %v", i, b.Source, err)
			return
		}
		ip := &cm.InlineParser{ReferenceMatcher: refs}
		for _, nb := range re {
			ip.Rewrite(nb)
		}
		x.Validated()
		if len(re) != 1 {
			x.Fail(pre+"reparse-block-count", "", in, "block %d Source %q re-parses to %d root blocks:\n%s", i, b.Source, len(re), tree.Dump(re, nil, tree.Spans|tree.Source))
			return
		}
		if int(re[0].EndOffset) != len(b.Source) || !bytes.Equal(re[0].Source, b.Source[re[0].StartOffset:]) {
			x.Fail(pre+"reparse-not-consumed", "", in, "block %d Source %q: re-parsed block covers [%d,%d) with Source %q", i, b.Source, re[0].StartOffset, re[0].EndOffset, re[0].Source)
			return
		}
		if re[0].StartOffset != 0 {
			// Source begins with blank lines: cannot happen for a root block (C01/C02).
			x.Fail(pre+"reparse-start", "", in, "block %d Source %q: re-parsed block starts at offset %d", i, b.Source, re[0].StartOffset)
			return
		}
		got := tree.DumpBlock(re[0], tree.Spans)
		want := tree.DumpBlock(b, tree.Spans)
		if got != want {
			x.Fail(pre+"reparse-differs", "", in, "block %d Source %q in the document:\n%s\nre-parsed alone:\n%s", i, b.Source, want, got)
			return
		}
		if i+1 < len(blocks) && blocks[i+1].StartOffset == b.EndOffset {
			nt = true
		}
	}
	if nt {
		x.Count("docs_block_ended_by_next_line")
		x.Nontrivial()
	}
	if len(blocks) >= 2 {
		x.Count("docs_ge2_roots")
	}
	x.Outcome(tree.Hash64(tree.Dump(blocks, refs, tree.Spans|tree.Refs)))
	x.Sample(q(in))
}
