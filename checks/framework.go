// Package checks holds the drivers and oracles of the twenty properties and
// the small framework that binds them to the explorer (package mc).
package checks

import (
	"bufio"
	"encoding/hex"
	"encoding/json"
	"fmt"
	"os"
	"path/filepath"
	"runtime"
	"sort"
	"strings"
	"time"

	"verif/mc"
	"verif/spaces"
)

// Check is one property's machinery.
type Check struct {
	ID          string
	Level       string // evidence level, normally "model_checking"
	Rule        string // how cases are enumerated and what makes one non-trivial
	Assumptions []string
	// SelfTest validates the oracles without passing through the code under test.
	SelfTest func() error
	// Run performs all explorations of this check for one shard.
	Run func(c *Ctx)
	// Post, if set, runs once in the orchestrator after all workers reported
	// (C19's separate race-detector pass). It returns extra evidence keys,
	// violations, or an error (framework error).
	Post func(verifDir, tier string) (map[string]any, []Violation, error)
	// ReplayInput, if set, runs the check's driver on one given input (used to
	// confirm and replay crashes, which have no recorded choice sequence).
	ReplayInput func(x *X, in []byte)
}

// Registry maps property ids to checks.
var Registry = map[string]*Check{}

func register(c *Check) {
	if c.Level == "" {
		c.Level = "model_checking"
	}
	Registry[c.ID] = c
}

// Violation is one confirmed failing execution.
type Violation struct {
	Property    string `json:"property"`
	Exploration string `json:"exploration"`
	Kind        string `json:"kind"`
	Config      string `json:"config,omitempty"`
	InputHex    string `json:"input_hex"`
	InputQuoted string `json:"input_quoted"`
	Message     string `json:"message"`
	Choices     []int  `json:"choices"`
	Replay      string `json:"replay,omitempty"`
	Confirmed   int    `json:"confirmed"`
}

// Key identifies a failing case in the known-findings lists.
func (v *Violation) Key() string { return v.Kind + "|" + v.Config + "|" + v.InputHex }

// ExplResult is the per-exploration record written to the evidence.
type ExplResult struct {
	Name        string `json:"name"`
	Doc         string `json:"doc,omitempty"`
	Bound       int    `json:"deviation_bound"`
	MaxLen      int    `json:"max_tokens,omitempty"`
	Executions  int64  `json:"executions"`
	States      int64  `json:"states"`
	Transitions int64  `json:"transitions"`
	MaxDepth    int    `json:"max_depth"`
	Exhaustive  bool   `json:"exhaustive"`
	Failures    int64  `json:"failing_executions"`
}

// Result is what one worker reports.
type Result struct {
	Property       string           `json:"property"`
	Shard          int              `json:"shard"`
	Explorations   []ExplResult     `json:"explorations"`
	Counters       map[string]int64 `json:"counters"`
	Maxima         map[string]int64 `json:"maxima,omitempty"`
	Violations     []Violation      `json:"violations"`
	ViolationCount int64            `json:"violation_count"`
	KnownHits      map[string]int64 `json:"known_hits"`
	Outcomes       []uint64         `json:"outcomes"`
	OutcomesCapped bool             `json:"outcomes_capped"`
	Samples        []string         `json:"samples"`
	Nontrivial     int64            `json:"nontrivial"`
	Validated      int64            `json:"validated"`
	Panics         int64            `json:"panics_skipped"`
	WallS          float64          `json:"wall_s"`
	Recorded       []string         `json:"recorded,omitempty"`
}

// ReplaySpec asks a check to run exactly one execution.
type ReplaySpec struct {
	Exploration string
	Choices     []int
}

// Ctx is the per-worker context.
type Ctx struct {
	Check    *Check
	Tier     string
	Shard    int
	NShards  int
	Deadline time.Time
	Known    map[string]string // case key -> finding id
	Replay   *ReplaySpec
	Record   bool // development: record every failing case key (known or not)
	VerifDir string
	// InflightPath, if set, receives the input of the execution in progress
	// (so that a crash of the worker can be attributed to an input).
	InflightPath string
	inflight     *os.File
	Res          Result
	outcomes     map[uint64]struct{}
	maxNew       int
}

const outcomeCap = 1 << 18

// Thorough reports whether the thorough tier is running.
func (c *Ctx) Thorough() bool { return c.Tier == "thorough" }

// Pick returns q in the quick tier and t in the thorough tier.
func (c *Ctx) Pick(q, t int) int {
	if c.Thorough() {
		return t
	}
	return q
}

// X is one execution as seen by a driver.
type X struct {
	*mc.Exec
	c          *Ctx
	fails      []fail
	counts     []string
	nontrivial bool
	validated  bool
	outcomes   []uint64
	sample     string
	panicked   bool
	stopAll    bool
	// noncanonical: the token sequence just drawn from an ambiguous alphabet is
	// not the canonical spelling of its byte string (another execution covers it)
	noncanonical bool
	// lastInput: the input most recently drawn with Tokens (for attributing a panic)
	lastInput []byte
}

type fail struct {
	kind, cfg, msg string
	input          []byte
	final          bool // cannot be re-run in this process (state poisoned): reported without the 5x replay
}

// StopExploring ends this worker's exploration after the current execution
// (the process state is no longer usable, e.g. a lock of the library is held
// by a thread that was torn down).
func (x *X) StopExploring() { x.stopAll = true }

// Fail records a violation of the property on this execution.
func (x *X) Fail(kind, cfg string, input []byte, format string, args ...any) {
	x.fails = append(x.fails, fail{kind: kind, cfg: cfg, msg: fmt.Sprintf(format, args...), input: append([]byte(nil), input...)})
}

// Max records a named maximum.
func (x *X) Max(name string, v int64) {
	if x.c.Res.Maxima == nil {
		x.c.Res.Maxima = map[string]int64{}
	}
	if v > x.c.Res.Maxima[name] {
		x.c.Res.Maxima[name] = v
	}
}

// InFlight publishes the input of the running execution for crash attribution.
func (x *X) InFlight(exploration string, in []byte) {
	c := x.c
	if c.InflightPath == "" {
		return
	}
	if c.inflight == nil {
		f, err := os.OpenFile(c.InflightPath, os.O_CREATE|os.O_WRONLY|os.O_TRUNC, 0o644)
		if err != nil {
			return
		}
		c.inflight = f
	}
	rec := make([]byte, 0, len(in)*2+len(exploration)+16)
	rec = append(rec, exploration...)
	rec = append(rec, ' ')
	rec = append(rec, hex.EncodeToString(in)...)
	rec = append(rec, '\n')
	c.inflight.WriteAt(rec, 0)
	c.inflight.Truncate(int64(len(rec)))
}

// CrashInfo describes a worker that died (fatal error, kill) instead of reporting.
type CrashInfo struct {
	Worker   int
	Err      string
	Stderr   string
	Inflight []byte
}

// Count increments a named reach counter.
func (x *X) Count(name string) { x.counts = append(x.counts, name) }

// Nontrivial marks the execution as exercising the property's mechanism.
func (x *X) Nontrivial() { x.nontrivial = true }

// Validated marks the execution as one where a reference prediction was
// compared with the implementation.
func (x *X) Validated() { x.validated = true }

// Outcome records a canonical observation digest.
func (x *X) Outcome(d uint64) { x.outcomes = append(x.outcomes, d) }

// Sample proposes a human-readable sample of this execution.
func (x *X) Sample(s string) { x.sample = s }

// Tokens chooses an input of at most maxLen tokens from the space
// (choice 0 at each position is "stop").
func (x *X) Tokens(sp spaces.Space, maxLen int) []byte {
	in := []byte(sp.Prefix)
	var seq []int
	for i := 0; i < maxLen; i++ {
		k := x.ChooseFree(len(sp.Tokens) + 1)
		if k == 0 {
			break
		}
		in = append(in, sp.Tokens[k-1]...)
		seq = append(seq, k-1)
	}
	if sp.Ambiguous && !sp.Canonical(seq) {
		x.noncanonical = true
	}
	in = append(in, sp.Suffix...)
	x.lastInput = in
	return in
}

// protectOrigin is Protect plus the function in which the panic was raised
// (the first frame below the runtime's panic machinery).
func protectOrigin(f func()) (panicked bool, val any, origin string) {
	defer func() {
		if r := recover(); r != nil {
			if fe, ok := r.(*mc.FrameworkError); ok {
				panic(fe)
			}
			panicked, val = true, r
			pcs := make([]uintptr, 64)
			n := runtime.Callers(2, pcs)
			frames := runtime.CallersFrames(pcs[:n])
			seenPanic := false
			for {
				fr, more := frames.Next()
				if strings.HasPrefix(fr.Function, "runtime.") {
					if fr.Function == "runtime.gopanic" || strings.HasPrefix(fr.Function, "runtime.panic") || strings.HasPrefix(fr.Function, "runtime.goPanic") || fr.Function == "runtime.sigpanic" {
						seenPanic = true
					}
				} else if seenPanic {
					origin = fr.Function
					break
				}
				if !more {
					break
				}
			}
		}
	}()
	f()
	return false, nil, ""
}

// Protect runs f and reports whether it panicked (framework errors propagate).
func Protect(f func()) (panicked bool, val any) {
	defer func() {
		if r := recover(); r != nil {
			if fe, ok := r.(*mc.FrameworkError); ok {
				panic(fe)
			}
			panicked = true
			val = r
		}
	}()
	f()
	return false, nil
}

// Explore runs one exploration. bound<0 means no deviation bound.
func (c *Ctx) Explore(name, doc string, bound, maxLen int, d func(x *X)) {
	if c.Res.Counters == nil {
		c.Res.Counters = map[string]int64{}
		c.Res.KnownHits = map[string]int64{}
		c.outcomes = map[uint64]struct{}{}
		c.maxNew = 20
	}
	wrap := func(e *mc.Exec) {
		x := &X{Exec: e, c: c}
		e.User = x
		p, val, origin := protectOrigin(func() { d(x) })
		if p {
			x.panicked = true
			x.fails = nil
			if strings.Contains(origin, "zombiezen.com/go/commonmark") {
				// The panic was raised inside the library (not in an oracle): no
				// property that speaks about the result for every input holds on
				// an input for which there is no result.
				x.fails = []fail{{kind: "library-panic", msg: fmt.Sprintf("the library panicked while the driver was using it: %v (raised in %s); the input is the one last drawn from the alphabet, if the driver draws inputs that way; otherwise see the recorded choices", val, origin), input: append([]byte(nil), x.lastInput...)}}
				x.counts = append(x.counts, "library_panics")
			} else {
				x.counts = append(x.counts, "driver_panics_skipped")
			}
		}
	}
	if c.Replay != nil {
		if c.Replay.Exploration != name {
			return
		}
		e := mc.Run(wrap, c.Replay.Choices)
		x := e.User.(*X)
		for _, f := range x.fails {
			v := c.mkViolation(name, f, e.Choices())
			v.Confirmed = 1
			c.Res.Violations = append(c.Res.Violations, v)
			c.Res.ViolationCount++
		}
		if x.panicked {
			fmt.Println("replay: driver panicked (skipped by this check; C04 decides totality)")
		}
		return
	}
	ex := &mc.Explorer{Bound: bound, Shard: c.Shard, NShards: c.NShards, Deadline: c.Deadline}
	er := ExplResult{Name: name, Doc: doc, Bound: bound, MaxLen: maxLen}
	ex.After = func(e *mc.Exec) {
		x := e.User.(*X)
		for _, n := range x.counts {
			c.Res.Counters[n]++
		}
		if x.panicked {
			c.Res.Panics++
		}
		if x.nontrivial {
			c.Res.Nontrivial++
		}
		if x.validated {
			c.Res.Validated++
		}
		for _, o := range x.outcomes {
			if len(c.outcomes) < outcomeCap {
				c.outcomes[o] = struct{}{}
			} else if _, ok := c.outcomes[o]; !ok {
				c.Res.OutcomesCapped = true
			}
		}
		if x.sample != "" && len(c.Res.Samples) < 6 && (x.nontrivial || len(c.Res.Samples) < 2) {
			c.Res.Samples = append(c.Res.Samples, name+": "+x.sample)
		}
		if len(x.fails) == 0 {
			return
		}
		er.Failures++
		choices := e.Choices()
		for _, f := range x.fails {
			v := c.mkViolation(name, f, choices)
			if c.Record {
				c.Res.Recorded = append(c.Res.Recorded, v.Key())
			}
			fid, ok := c.Known[v.Key()]
			if !ok {
				// A finding may also be identified by its failure kind alone, when the
				// driver assigns that kind only under an exact structural predicate.
				fid, ok = c.Known[v.Kind+"|"+v.Config+"|*"]
			}
			if ok {
				c.Res.KnownHits[fid]++
				continue
			}
			c.Res.ViolationCount++
			if len(c.Res.Violations) >= c.maxNew {
				continue
			}
			// Confirm 5x from the recorded choice sequence.
			ok = true
			for i := 0; i < 5 && !f.final; i++ {
				found := false
				func() {
					defer func() {
						if r := recover(); r != nil {
							if fe, isFE := r.(*mc.FrameworkError); !isFE || !strings.HasPrefix(fe.Msg, "nondeterministic driver") {
								panic(r)
							}
						}
					}()
					e2 := mc.Run(wrap, choices)
					for _, f2 := range e2.User.(*X).fails {
						v2 := c.mkViolation(name, f2, choices)
						if v2.Key() == v.Key() {
							found = true
						}
					}
				}()
				if !found {
					ok = false
					break
				}
				v.Confirmed++
			}
			if !ok {
				// The drivers are deterministic functions of their choices (they have
				// been run on the unchanged tree without ever diverging), so a failure
				// that does not come back on the same choices means the library's
				// behaviour depended on calls made earlier in this process.
				v.Kind += "/depends-on-earlier-calls"
				v.Message += fmt.Sprintf("\n(observed in the exploration; replaying the same choices in the same process reproduced it %d of 5 times: the behaviour depends on state left behind by earlier calls)", v.Confirmed)
			}
			v.Replay = c.writeReplay(&v)
			c.Res.Violations = append(c.Res.Violations, v)
		}
		if !c.Record && len(c.Res.Violations) >= c.maxNew {
			ex.Stop = true
		}
		if x.stopAll {
			ex.Stop = true
		}
	}
	func() {
		defer func() {
			r := recover()
			if r == nil {
				return
			}
			fe, ok := r.(*mc.FrameworkError)
			if !ok || !strings.HasPrefix(fe.Msg, "nondeterministic driver") {
				panic(r)
			}
			// Replaying a recorded choice prefix met a different choice structure
			// than the run that recorded it. The driver computes its choice points
			// from the library's results only, so the library answered differently
			// the second time: its behaviour depends on earlier calls.
			v := Violation{Property: c.Check.ID, Exploration: name, Kind: "behaviour-depends-on-earlier-calls", InputQuoted: "(see message)",
				Message: "while replaying a recorded choice prefix the same driver met different choice points than when the prefix was recorded (" + fe.Msg + "): results of the library depend on calls made earlier in the same process (state kept between calls)"}
			v.Replay = c.writeReplay(&v)
			c.Res.Violations = append(c.Res.Violations, v)
			c.Res.ViolationCount++
			ex.Stop = true
		}()
		ex.Explore(wrap)
	}()
	er.Executions, er.States, er.Transitions, er.MaxDepth = ex.Executions, ex.States, ex.Transitions, ex.MaxDepth
	er.Exhaustive = ex.Exhaustive && !ex.Stop
	c.Res.Explorations = append(c.Res.Explorations, er)
}

// Inputs explores every input of at most maxLen tokens of the space.
func (c *Ctx) Inputs(sp spaces.Space, maxLen int, f func(x *X, in []byte)) {
	doc := fmt.Sprintf("all inputs of <=%d tokens over %d tokens: %s", maxLen, len(sp.Tokens), sp.Doc)
	if sp.Suffix != "" {
		doc += fmt.Sprintf(" (every input followed by %q)", sp.Suffix)
	}
	if sp.Prefix != "" {
		doc += fmt.Sprintf(" (every input preceded by %q)", sp.Prefix)
	}
	if sp.Ambiguous {
		doc += " (the alphabet is not uniquely decodable: of all token sequences spelling the same bytes only the shortest, lexicographically first one is executed; the others are counted under reach_counters[noncanonical_spellings_skipped])"
	}
	c.Explore(sp.Name, doc, -1, maxLen, func(x *X) {
		in := x.Tokens(sp, maxLen)
		if x.noncanonical {
			x.Count("noncanonical_spellings_skipped")
			return
		}
		f(x, in)
	})
}

func (c *Ctx) mkViolation(name string, f fail, choices []int) Violation {
	return Violation{
		Property:    c.Check.ID,
		Exploration: name,
		Kind:        f.kind,
		Config:      f.cfg,
		InputHex:    hex.EncodeToString(f.input),
		InputQuoted: fmt.Sprintf("%q", f.input),
		Message:     f.msg,
		Choices:     choices,
	}
}

func (c *Ctx) writeReplay(v *Violation) string {
	dir := filepath.Join(c.VerifDir, "replays", c.Check.ID)
	os.MkdirAll(dir, 0o755)
	h := fnv(v.Exploration + "|" + v.Key())
	path := filepath.Join(dir, fmt.Sprintf("%016x.json", h))
	data, _ := json.MarshalIndent(v, "", " ")
	os.WriteFile(path, data, 0o644)
	return path
}

func fnv(s string) uint64 {
	h := uint64(14695981039346656037)
	for i := 0; i < len(s); i++ {
		h ^= uint64(s[i])
		h *= 1099511628211
	}
	return h
}

// RunOne runs ReplayInput on one input and returns the failures it recorded.
func (c *Ctx) RunOne(in []byte) []Violation {
	if c.Res.Counters == nil {
		c.Res.Counters = map[string]int64{}
	}
	var out []Violation
	e := mc.Run(func(e *mc.Exec) {
		x := &X{Exec: e, c: c}
		c.Check.ReplayInput(x, in)
		for _, f := range x.fails {
			out = append(out, c.mkViolation("one", f, nil))
		}
	}, nil)
	_ = e
	return out
}

// Finish moves the outcome set into the result.
func (c *Ctx) Finish() {
	for o := range c.outcomes {
		c.Res.Outcomes = append(c.Res.Outcomes, o)
	}
	sort.Slice(c.Res.Outcomes, func(i, j int) bool { return c.Res.Outcomes[i] < c.Res.Outcomes[j] })
	sort.Strings(c.Res.Recorded)
}

// Finding is one entry of known_findings.txt.
type Finding struct {
	Status   string // "known" or "fixed"
	Property string
	ID       string
	Cases    string
	Text     string
}

// LoadFindings parses known_findings.txt.
func LoadFindings(verifDir string) ([]Finding, error) {
	f, err := os.Open(filepath.Join(verifDir, "known_findings.txt"))
	if err != nil {
		if os.IsNotExist(err) {
			return nil, nil
		}
		return nil, err
	}
	defer f.Close()
	var out []Finding
	sc := bufio.NewScanner(f)
	sc.Buffer(make([]byte, 1<<20), 1<<20)
	for sc.Scan() {
		line := strings.TrimSpace(sc.Text())
		if line == "" || strings.HasPrefix(line, "#") {
			continue
		}
		var fd Finding
		switch {
		case strings.HasPrefix(line, "known:"):
			fd.Status = "known"
			line = strings.TrimSpace(strings.TrimPrefix(line, "known:"))
		case strings.HasPrefix(line, "fixed:"):
			fd.Status = "fixed"
			line = strings.TrimSpace(strings.TrimPrefix(line, "fixed:"))
		default:
			return nil, fmt.Errorf("known_findings.txt: bad line %q", line)
		}
		rest := []string{}
		for _, w := range strings.Fields(line) {
			switch {
			case strings.HasPrefix(w, "property=") && fd.Property == "":
				fd.Property = strings.TrimPrefix(w, "property=")
			case strings.HasPrefix(w, "finding=") && fd.ID == "":
				fd.ID = strings.TrimPrefix(w, "finding=")
			case strings.HasPrefix(w, "cases=") && fd.Cases == "":
				fd.Cases = strings.TrimPrefix(w, "cases=")
			default:
				rest = append(rest, w)
			}
		}
		fd.Text = strings.Join(rest, " ")
		out = append(out, fd)
	}
	return out, sc.Err()
}

// LoadKnown loads the failing-case keys of all known findings of a property.
func LoadKnown(verifDir, property string) (map[string]string, []Finding, error) {
	fds, err := LoadFindings(verifDir)
	if err != nil {
		return nil, nil, err
	}
	known := map[string]string{}
	var mine []Finding
	for _, fd := range fds {
		if fd.Property != property || fd.Status != "known" {
			continue
		}
		mine = append(mine, fd)
		if fd.Cases == "" {
			continue
		}
		f, err := os.Open(filepath.Join(verifDir, fd.Cases))
		if err != nil {
			return nil, nil, err
		}
		sc := bufio.NewScanner(f)
		sc.Buffer(make([]byte, 1<<20), 1<<20)
		for sc.Scan() {
			k := strings.TrimSpace(sc.Text())
			if k != "" && !strings.HasPrefix(k, "#") {
				known[k] = fd.ID
			}
		}
		f.Close()
	}
	return known, mine, nil
}

// Families explores every member k = 1..maxK of every parametric family
// (spaces.Families), completely.
func (c *Ctx) Families(maxK int, f func(x *X, in []byte)) {
	fams := spaces.Families()
	c.Explore("families", fmt.Sprintf("parametric families (DESIGN.md 4.4): %d families x k=1..%d, each member once", len(fams), maxK), -1, maxK, func(x *X) {
		fi := x.ChooseFree(len(fams))
		k := x.ChooseFree(maxK) + 1
		if fams[fi].MaxK > 0 && k > fams[fi].MaxK {
			return
		}
		f(x, fams[fi].Gen(k))
	})
}
