package checks

import (
	"bytes"
	"fmt"
	"io"

	"verif/spaces"
	"verif/tree"

	cm "zombiezen.com/go/commonmark"
)

// ---------------------------------------------------------------------------
// C01: root blocks tile the input losslessly, exact offsets and line numbers.

var c01Plan = []planEntry{
	{spaces.B, 5, 6},
	{spaces.XNul, 6, 7},
	{spaces.XEol, 6, 7},
	{spaces.XRef, 5, 6},
	{spaces.L, 3, 4},
	{spaces.XList, 5, 6},
	{spaces.XWs, 5, 6},
}

func init() {
	register(&Check{
		ID:   "C01",
		Rule: "every token sequence up to the stated length over each declared alphabet, and every member of the parametric families t^k / t1^k t2^k, is parsed through Parse (caller's buffer with sentinel-filled spare capacity) and through NewBlockParser+NextBlock (one full read; for inputs up to 64 bytes also one byte per read and all data together with io.EOF; for inputs up to 24 bytes also every single-cut read schedule); inputs with LF and without CR are also parsed with every LF replaced by CRLF and by CR (Parse, one full read, one-byte reads); non-trivial = >=2 root blocks, or a NUL / CR in the input, or leading blank lines",
		Assumptions: []string{
			"line numbering reference: a line ending is LF, CRLF or a CR not followed by LF (written from the statement, not from lineCount)",
			"equality of streaming and in-memory results under arbitrary read schedules and reader faults is C08's subject; here the tiling statement itself is checked on each streamed result",
		},
		Run: func(c *Ctx) {
			c.forPlan(c01Plan, c01Driver)
			c.Families(c.Pick(256, 2048), c01Driver)
			// Documents beyond one and two of the parser's read chunks, with NUL, CR,
			// CRLF and multi-byte characters spread over hundreds of root blocks:
			// offsets and line numbers after the buffer has been refilled and cut.
			big := c08BigDocs()
			sizes := [][]int{nil, {1000}, {4096}, {8191}, {8192}, {8193}, {7}, {8191, 1, 8192}, {-1}}
			c.Explore("big-docs", fmt.Sprintf("%d generated documents of %d and %d bytes through Parse and through the streaming parser with %d read-size patterns", len(big), len(big[0]), len(big[1]), len(sizes)), -1, 0, func(x *X) {
				in := []byte(big[x.ChooseFree(len(big))])
				k := x.ChooseFree(len(sizes) + 1)
				x.Validated()
				if k == len(sizes) {
					blocks, _ := cm.Parse(clone(in))
					c01Tiling(x, in, blocks, "parse")
				} else {
					c01Stream(x, in, sizes[k], "stream")
				}
				x.Nontrivial()
				x.Outcome(uint64(len(in))*31 + uint64(k))
				x.Sample(fmt.Sprintf("big document of %d bytes, read sizes %v", len(in), append([]int(nil), sizes[min(k, len(sizes)-1)]...)))
			})
		},
	})
}

// refLine is the 1-based line of offset off: one more than the number of line
// endings that end at or before off.
func refLine(in []byte, off int) int {
	n := 1
	for i := 0; i < off && i < len(in); i++ {
		switch in[i] {
		case '\n':
			n++
		case '\r':
			if !(i+1 < len(in) && in[i+1] == '\n') {
				n++
			}
		}
	}
	return n
}

func refSource(raw []byte) []byte {
	if bytes.IndexByte(raw, 0) < 0 {
		return raw
	}
	return bytes.ReplaceAll(raw, []byte{0}, []byte("\ufffd"))
}

func c01Driver(x *X, in []byte) {
	const spare = 16
	// In-memory entry point: caller's buffer with sentinel spare capacity.
	buf := make([]byte, len(in), len(in)+spare)
	copy(buf, in)
	full := buf[:cap(buf)]
	for i := len(in); i < len(full); i++ {
		full[i] = 0xA5
	}
	blocks, _ := cm.Parse(buf)
	x.Validated()
	if !bytes.Equal(buf[:len(in)], in) {
		x.Fail("caller-buffer-modified", "parse", in, "Parse modified the caller's buffer: now %q", buf[:len(in)])
	} else {
		for i := len(in); i < len(full); i++ {
			if full[i] != 0xA5 {
				x.Fail("caller-spare-capacity-modified", "parse", in, "Parse wrote into the spare capacity of the caller's slice at index %d", i)
				break
			}
		}
	}
	hasNul := bytes.IndexByte(in, 0) >= 0
	c01Tiling(x, in, blocks, "parse")
	if !hasNul {
		for i, b := range blocks {
			so, eo := int(b.StartOffset), int(b.EndOffset)
			if so < 0 || so > eo || eo > len(in) {
				break // reported by tiling
			}
			if len(b.Source) != eo-so {
				x.Fail("source-length", "parse", in, "block %d: len(Source)=%d but EndOffset-StartOffset=%d", i, len(b.Source), eo-so)
				break
			}
			if len(b.Source) > 0 && &b.Source[0] != &buf[so] {
				x.Fail("source-not-aliased", "parse", in, "block %d: Source is not a sub-slice of the caller's buffer at StartOffset=%d", i, so)
				break
			}
		}
	}
	// Streaming entry point: one full read, one byte per read, and (inputs up
	// to 24 bytes) every schedule with a single cut. The statement is about the
	// root blocks "returned by parsing"; it has to hold however the reader
	// happens to deliver the bytes. (Equality with Parse is C08's subject.)
	c01Stream(x, in, nil, "stream")
	if len(in) >= 1 && len(in) <= 64 {
		// The last bytes arrive together with io.EOF (io.Reader allows it).
		c01Stream(x, in, []int{-1}, "stream/data-with-EOF")
		x.Count("streamed_data_with_eof")
	}
	if len(in) >= 2 && len(in) <= 64 {
		c01Stream(x, in, []int{1}, "stream/1-byte-reads")
		x.Count("streamed_one_byte_reads")
		if len(in) <= 24 {
			for cut := 1; cut < len(in); cut++ {
				c01Stream(x, in, []int{cut, len(in)}, "stream/cut")
				c01Stream(x, in, []int{cut, -1}, "stream/cut,data-with-EOF")
				x.Count("streamed_single_cut_schedules")
			}
		}
	}

	// The same document with every LF spelled CRLF and spelled CR: the alphabets
	// that reach reference definitions, lists and headings are written with LF
	// only, and where a block ends relative to a two-byte line ending is decided
	// separately in every block rule.
	if bytes.IndexByte(in, '\n') >= 0 && bytes.IndexByte(in, '\r') < 0 && len(in) <= 64 {
		for _, eol := range []string{"\r\n", "\r"} {
			v := bytes.ReplaceAll(in, []byte{'\n'}, []byte(eol))
			vb, _ := cm.Parse(clone(v))
			c01Tiling(x, v, vb, "parse/eol-variant")
			c01Stream(x, v, nil, "stream/eol-variant")
			c01Stream(x, v, []int{1}, "stream/eol-variant/1-byte-reads")
		}
		x.Count("inputs_also_as_crlf_and_cr")
	}

	if len(blocks) >= 2 {
		x.Count("inputs_ge2_roots")
		for i := 1; i < len(blocks); i++ {
			if blocks[i].StartOffset == blocks[i-1].EndOffset {
				x.Count("inputs_adjacent_roots_no_gap")
				break
			}
		}
	}
	if hasNul {
		x.Count("inputs_with_nul")
		if len(blocks) >= 2 {
			x.Count("inputs_nul_and_ge2_roots")
		}
	}
	cr := bytes.IndexByte(in, '\r') >= 0
	if cr {
		x.Count("inputs_with_cr")
	}
	lead := len(blocks) > 0 && blocks[0].StartOffset > 0 && bytes.ContainsAny(in[:min(int(blocks[0].StartOffset), len(in))], "\r\n")
	if lead {
		x.Count("inputs_leading_blank_lines")
	}
	if len(blocks) >= 2 || hasNul || cr || lead {
		x.Nontrivial()
	}
	x.Outcome(tree.Hash64(tree.Dump(blocks, nil, tree.Positions|tree.Source)) ^ tree.HashBytes(in))
	x.Sample(q(in))
}

// chunkReader delivers its data in reads of the given sizes (the last size
// repeats), never more than the caller's buffer holds. Size -1 means: all the
// rest, together with io.EOF in the same call.
type chunkReader struct {
	data  []byte
	sizes []int
	k     int
}

func (r *chunkReader) Read(p []byte) (int, error) {
	if len(r.data) == 0 {
		return 0, io.EOF
	}
	n := len(r.data)
	withEOF := false
	if len(r.sizes) > 0 {
		n = r.sizes[min(r.k, len(r.sizes)-1)]
		r.k++
		if n < 0 {
			n, withEOF = len(r.data), true
		}
	}
	n = min(n, len(r.data), len(p))
	copy(p, r.data[:n])
	r.data = r.data[n:]
	if withEOF && len(r.data) == 0 {
		return n, io.EOF
	}
	return n, nil
}

func c01Stream(x *X, in []byte, sizes []int, cfg string) {
	p := cm.NewBlockParser(&chunkReader{data: clone(in), sizes: sizes})
	if len(sizes) > 0 {
		cfg = fmt.Sprintf("%s%v", cfg, sizes)
	}
	var sblocks []*cm.RootBlock
	for {
		b, err := p.NextBlock()
		if err != nil {
			if err != io.EOF {
				x.Fail("stream-error", cfg, in, "NextBlock returned %v on a healthy reader", err)
			}
			break
		}
		sblocks = append(sblocks, b)
		if len(sblocks) > len(in)+2 {
			x.Fail("stream-too-many-blocks", cfg, in, "more root blocks than input bytes")
			break
		}
	}
	c01Tiling(x, in, sblocks, cfg)
}

func c01Tiling(x *X, in []byte, blocks []*cm.RootBlock, cfg string) {
	prevEnd := 0
	blank := func(from, to int, what string) bool {
		for i := from; i < to; i++ {
			if c := in[i]; c != ' ' && c != '\t' && c != '\r' && c != '\n' {
				x.Fail("gap-not-blank", cfg, in, "byte %d (%q) %s belongs to no root block", i, c, what)
				return false
			}
		}
		return true
	}
	for i, b := range blocks {
		so, eo := b.StartOffset, b.EndOffset
		if so < int64(prevEnd) || eo < so || eo > int64(len(in)) {
			x.Fail("offsets-order", cfg, in, "block %d: [StartOffset,EndOffset)=[%d,%d) after previous end %d, input length %d", i, so, eo, prevEnd, len(in))
			return
		}
		if !blank(prevEnd, int(so), fmt.Sprintf("before block %d", i)) {
			return
		}
		want := refSource(in[so:eo])
		if !bytes.Equal(b.Source, want) {
			x.Fail("source-mismatch", cfg, in, "block %d: Source=%q, input[%d:%d] with NUL replaced=%q", i, b.Source, so, eo, want)
			return
		}
		if wl := refLine(in, int(so)); b.StartLine != wl {
			x.Fail("start-line", cfg, in, "block %d: StartLine=%d, want %d (StartOffset=%d)", i, b.StartLine, wl, so)
			return
		}
		prevEnd = int(eo)
	}
	blank(prevEnd, len(in), "after the last block")
}
