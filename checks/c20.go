package checks

import (
	"bytes"
	"errors"
	"fmt"
	"io"

	"verif/spaces"
	"verif/tree"

	cm "zombiezen.com/go/commonmark"
	"zombiezen.com/go/commonmark/format"
)

// ---------------------------------------------------------------------------
// C20: Format is total, deterministic and meaning-preserving on canonical documents.

// scriptedWriter asks the explorer at every write call whether it fails now.
type scriptedWriter struct {
	x        *X
	buf      []byte
	calls    int
	failedAt int // 1-based call number of the injected failure, 0 if none
	err      error
	after    int  // calls after the failure
	partial  bool // the failing call took one byte before reporting the error
	// partialOK: this writer may also fail after taking part of the data (explored
	// for the writer without WriteString, whose calls go through Format's adapter)
	partialOK bool
}

type writeFault struct{ call int }

func (e *writeFault) Error() string {
	return fmt.Sprintf("verif: injected writer failure at call %d", e.call)
}

func (w *scriptedWriter) write(p []byte) (int, error) {
	if w.failedAt != 0 {
		w.after++
		return 0, w.err
	}
	w.calls++
	styles := 2
	if w.partialOK {
		styles = 3
	}
	switch w.x.Choose(styles) {
	case 1:
		w.failedAt = w.calls
		w.err = &writeFault{w.calls}
		return 0, w.err
	case 2:
		// The failure is reported after part of the data has been taken
		// (io.Writer: "Write must return a non-nil error if it returns n < len(p)").
		w.failedAt = w.calls
		w.err = &writeFault{w.calls}
		if len(p) >= 2 {
			w.buf = append(w.buf, p[0])
			w.partial = true
			return 1, w.err
		}
		return 0, w.err
	}
	w.buf = append(w.buf, p...)
	return len(p), nil
}

type plainScripted struct{ w *scriptedWriter }

func (p plainScripted) Write(b []byte) (int, error) { return p.w.write(b) }

type stringScripted struct{ w *scriptedWriter }

func (p stringScripted) Write(b []byte) (int, error)       { return p.w.write(b) }
func (p stringScripted) WriteString(s string) (int, error) { return p.w.write([]byte(s)) }

// onlyWriter hides any WriteString method.
type onlyWriter struct{ w io.Writer }

func (o onlyWriter) Write(p []byte) (int, error) { return o.w.Write(p) }

var c20Plan = []planEntry{
	{spaces.B, 5, 6},
	{spaces.I, 4, 5},
	{spaces.L, 3, 3},
	{spaces.XList, 5, 6},
	{spaces.XCode, 5, 6},
	{spaces.XLink, 5, 6},
	{spaces.XRef, 5, 6},
	{spaces.XHTML, 4, 5},
}

func init() {
	register(&Check{
		ID:    "C20",
		Level: "fault_enumeration",
		Rule:  "first clause: every token sequence up to the stated length over each declared alphabet is parsed and formatted into a scripted writer (with and without a WriteString method) that may fail at any one write call (every fault point: one execution per call index, plus the fault-free execution, which also checks nil error, determinism, equality of both writer kinds and an unchanged tree); second clause: every canonical-style document of the supported construct set S_fmt (DESIGN.md) is formatted, re-parsed, compared on rendered HTML and re-formatted; non-trivial = first clause: an execution with an injected failure after at least one successful write; second clause: the formatted text differs from the canonical serialization",
		Assumptions: []string{
			"a writer fails by returning (0, err), or (1, err) for a call with at least two bytes (a failure reported after part of the data was taken), and keeps returning that error; short writes without error are outside the io.Writer contract and not generated",
			"at most one failure per execution is meaningful because Format must not write again after the first error",
		},
		Run: func(c *Ctx) {
			for _, p := range c20Plan {
				sp := p.sp
				n := c.Pick(p.quick, p.thorough)
				c.Explore("faults-"+sp.Name, fmt.Sprintf("inputs of <=%d tokens over %s x 2 writer kinds x every write fault point", n, sp.Name), 1, n, func(x *X) {
					c20Faults(x, x.Tokens(sp, n))
				})
			}
			c20Second(c)
		},
	})
}

func c20Faults(x *X, in []byte) {
	blocks, refs := cm.Parse(clone(in))
	before := tree.Dump(blocks, refs, tree.Full)
	kind := x.ChooseFree(2)
	sw := &scriptedWriter{x: x, partialOK: kind == 0}
	var w io.Writer = plainScripted{sw}
	cfg := "writer=plain"
	if kind == 1 {
		w = stringScripted{sw}
		cfg = "writer=with-WriteString"
	}
	var err error
	if p, val := Protect(func() { err = format.Format(w, blocks) }); p {
		x.Fail("format-panicked", cfg, in, "Format panicked: %v (after %d write calls)", val, sw.calls)
		return
	}
	x.Validated()
	if sw.failedAt != 0 {
		cfg += fmt.Sprintf(",fail-at-call=%d", sw.failedAt)
		if sw.partial {
			cfg += ",after-taking-1-byte"
		}
		if !errors.Is(err, sw.err) {
			x.Fail("error-not-returned", cfg, in, "writer failed at call %d with %v but Format returned %v", sw.failedAt, sw.err, err)
			return
		}
		if sw.after > 0 {
			x.Fail("write-after-failure", cfg, in, "Format made %d more write calls after the writer had failed at call %d", sw.after, sw.failedAt)
			return
		}
		if sw.failedAt > 1 {
			x.Nontrivial()
		}
		x.Count("executions_with_injected_failure")
		// A failed call must leave nothing behind: the next call, on a healthy
		// writer, succeeds and is deterministic.
		var h1, h2 bytes.Buffer
		e1 := format.Format(&h1, blocks)
		e2 := format.Format(&h2, blocks)
		if e1 != nil || e2 != nil {
			x.Fail("error-on-healthy-writer", cfg+",after-failed-call", in, "Format into a bytes.Buffer right after a call whose writer failed returned %v / %v", e1, e2)
			return
		}
		if !bytes.Equal(h1.Bytes(), h2.Bytes()) || !bytes.HasPrefix(h1.Bytes(), sw.buf) {
			x.Fail("nondeterministic", cfg+",after-failed-call", in, "after a call whose writer failed, two healthy runs wrote %q and %q; the failed call had written %q before the failure", h1.Bytes(), h2.Bytes(), sw.buf)
			return
		}
	} else {
		if err != nil {
			x.Fail("error-on-healthy-writer", cfg, in, "Format returned %v although no write failed", err)
			return
		}
		var a, b, c bytes.Buffer
		e1 := format.Format(&a, blocks)
		e2 := format.Format(&b, blocks)
		e3 := format.Format(onlyWriter{&c}, blocks)
		if e1 != nil || e2 != nil || e3 != nil {
			x.Fail("error-on-healthy-writer", cfg, in, "Format into a bytes.Buffer returned %v / %v / %v", e1, e2, e3)
			return
		}
		if !bytes.Equal(a.Bytes(), b.Bytes()) {
			x.Fail("nondeterministic", cfg, in, "two runs wrote %q and %q", a.Bytes(), b.Bytes())
			return
		}
		if !bytes.Equal(a.Bytes(), c.Bytes()) || !bytes.Equal(a.Bytes(), sw.buf) {
			x.Fail("writer-kind-changes-output", cfg, in, "with WriteString: %q; without: %q; scripted: %q", a.Bytes(), c.Bytes(), sw.buf)
			return
		}
		x.Outcome(tree.HashBytes(a.Bytes()))
	}
	if after := tree.Dump(blocks, refs, tree.Full); after != before {
		x.Fail("tree-modified", cfg, in, "dump before Format:\n%s\nafter:\n%s", before, after)
		return
	}
	x.Sample(q(in) + " " + cfg)
}

// c20Second is filled in by the canonical-document generator (c06.go).
var c20Second = func(c *Ctx) {}
