package checks

import (
	"fmt"
	"strings"
	"unicode/utf8"

	"verif/ref"
	"verif/spaces"
	"verif/tree"

	cm "zombiezen.com/go/commonmark"
)

// ---------------------------------------------------------------------------
// C15: line-level recognisers and byte classifiers match the spec's definitions.

var (
	spATX       = spaces.Space{Name: "atx-lines", Doc: "ATX heading lines", Tokens: []string{"#", " ", "\t", "a", "\\"}}
	spThematic  = spaces.Space{Name: "thematic-lines", Doc: "thematic break lines", Tokens: []string{"*", "-", "_", " ", "\t", "a"}}
	spSetext    = spaces.Space{Name: "setext-lines", Doc: "setext underline lines", Tokens: []string{"=", "-", " ", "\t", "a"}}
	spFence     = spaces.Space{Name: "fence-lines", Doc: "code fence lines", Tokens: []string{"`", "~", " ", "\t", "a"}}
	uws         = []string{"\f", "\v", "\u00a0", "\u0085", "\u2003"}
	spATXU      = spaces.Space{Name: "atx-lines-unicode-space", Doc: "ATX heading lines with non-ASCII and non-spec white space", Tokens: append([]string{"#", " ", "a"}, uws...)}
	spThematicU = spaces.Space{Name: "thematic-lines-unicode-space", Doc: "thematic break lines with non-spec white space", Tokens: append([]string{"*", "-", " "}, uws...)}
	spSetextU   = spaces.Space{Name: "setext-lines-unicode-space", Doc: "setext underline lines with non-spec white space", Tokens: append([]string{"=", "-", " "}, uws...)}
	spFenceU    = spaces.Space{Name: "fence-lines-unicode-space", Doc: "code fence lines with non-spec white space", Tokens: append([]string{"```", "~~~", " ", "a"}, uws...)}
	spMarkerU   = spaces.Space{Name: "marker-lines-unicode-space", Doc: "list marker lines with non-spec white space", Tokens: append([]string{"-", "1", ".", " ", "a"}, uws...)}
	spMarker    = spaces.Space{Name: "marker-lines", Doc: "list marker lines", Tokens: []string{"-", "+", "*", "0", "1", "9", ".", ")", " ", "\t", "a"}}
	spURI       = spaces.Space{Name: "uri-strings", Doc: "NormalizeURI arguments", Tokens: []string{"a", "%", "2", "G", "f", " ", "é", "<", "\"", "/", "#", "[", "\xc3"}}
	spEmail     = spaces.Space{Name: "email-strings", Doc: "IsEmailAddress arguments", Tokens: []string{"a", "1", ".", "-", "@", "_", "+", " "}}
	spAuto      = spaces.Space{Name: "autolink-strings", Doc: "autolink candidates", Tokens: []string{"<", ">", "a", ":", "@", ".", " ", "+", "1", "/"}}
	eols        = []string{"", "\n", "\r", "\r\n"}
)

func init() {
	register(&Check{
		ID:   "C15",
		Rule: "all 256 bytes for every byte classifier; all 0x110000 code points for the two Unicode predicates (one execution per block of 256 code points); every line up to the stated length over the alphabet of each recogniser x 4 line-ending variants, through the verif-tagged exports and cross-checked through Parse on one-line documents; every string up to the stated length for NormalizeURI, IsEmailAddress and autolinks; parametric families (digit runs, # runs, fence runs, domain labels 61..65); non-trivial = the reference recogniser accepts the line / string (or, for classifiers, the byte or block contains a member of the class)",
		Assumptions: []string{
			"recognisers are called on lines whose leading indentation has been stripped, as the library's callers do; enumerated strings that begin with a space or tab or contain an inner line ending are skipped and counted",
			"Unicode general categories come from Go's unicode tables on both sides; the reference fixes which categories count (spec 2.1)",
			"ATX content: the statement's 'content c' is the raw content stripped of leading and trailing spaces and tabs with the closing sequence removed (spec 4.2)",
		},
		SelfTest: ref.RecogSelfTest,
		Run: func(c *Ctx) {
			c.Explore("bytes", "all 256 byte values x 7 byte classifiers and the 2 Unicode predicates", -1, 0, func(x *X) {
				c15Byte(x, byte(x.ChooseFree(256)))
			})
			c.Explore("codepoints", "all 0x110000 code points x IsUnicodeWhitespace/IsUnicodePunctuation, one execution per block of 256", -1, 0, func(x *X) {
				c15CodePoints(x, x.ChooseFree(0x1100))
			})
			lines := func(sp spaces.Space, q, t int, f func(x *X, line string)) {
				n := c.Pick(q, t)
				c.Explore(sp.Name, fmt.Sprintf("all lines of <=%d tokens over %q x 4 line endings: %s", n, sp.Tokens, sp.Doc), -1, n, func(x *X) {
					body := x.Tokens(sp, n)
					eol := eols[x.ChooseFree(len(eols))]
					if len(body) > 0 && (body[0] == ' ' || body[0] == '\t') {
						x.Count("skipped_leading_indentation")
						return
					}
					f(x, string(body)+eol)
				})
			}
			lines(spATX, 8, 9, c15ATX)
			lines(spThematic, 7, 8, c15Thematic)
			lines(spSetext, 8, 9, c15Setext)
			lines(spFence, 8, 9, c15Fence)
			lines(spMarker, 5, 6, c15Marker)
			// The same recognisers on lines with white space that is NOT the spec's
			// "space or tab": form feed, vertical tab, NBSP, NEL, EM SPACE - where an
			// idiomatic bytes.TrimSpace / unicode.IsSpace would go wrong.
			lines(spATXU, 5, 6, c15ATX)
			lines(spThematicU, 5, 6, c15Thematic)
			lines(spSetextU, 5, 6, c15Setext)
			lines(spFenceU, 5, 6, c15Fence)
			lines(spMarkerU, 4, 5, c15Marker)
			strs := func(sp spaces.Space, q, t int, f func(x *X, s string)) {
				n := c.Pick(q, t)
				c.Explore(sp.Name, fmt.Sprintf("all strings of <=%d tokens over %q: %s", n, sp.Tokens, sp.Doc), -1, n, func(x *X) {
					f(x, string(x.Tokens(sp, n)))
				})
			}
			strs(spURI, 5, 6, c15URI)
			c.Explore("uri-codepoints", "NormalizeURI of every code point (all 0x110000, surrogates as their 3-byte encodings' replacement) alone, after '/', between '%' and a hex digit, and before a well-formed escape; every single byte 0..255 in the same contexts; one execution per block of 256", -1, 0, func(x *X) {
				blk := x.ChooseFree(0x1100 + 1)
				if blk == 0x1100 {
					for b := 0; b < 256; b++ {
						for _, s := range []string{string([]byte{byte(b)}), "/" + string([]byte{byte(b)}) + "a", "%" + string([]byte{byte(b)}) + "2", string([]byte{byte(b)}) + "%41", "%4" + string([]byte{byte(b)})} {
							c15URI(x, s)
						}
					}
					return
				}
				for r := rune(blk << 8); r < rune(blk<<8)+256; r++ {
					c := string(r)
					for _, s := range []string{c, "/" + c + "a", "%" + c + "2", c + "%41"} {
						c15URI(x, s)
					}
				}
			})
			strs(spEmail, 7, 8, c15Email)
			strs(spAuto, 6, 7, c15Autolink)
			c.Explore("families", "digit runs 1..12 before . and ); # runs 1..9; fence runs 1..8 of both characters; e-mail domain labels of 59..66 characters in 3 positions", -1, 0, func(x *X) {
				switch x.ChooseFree(4) {
				case 0:
					k := x.ChooseFree(12) + 1
					d := []string{"1", "0", "9"}[x.ChooseFree(3)]
					delim := []string{".", ")"}[x.ChooseFree(2)]
					c15Marker(x, strings.Repeat(d, k)+delim+" a\n")
				case 1:
					k := x.ChooseFree(9) + 1
					tail := []string{"", " a", " a #", "a"}[x.ChooseFree(4)]
					c15ATX(x, strings.Repeat("#", k)+tail+"\n")
				case 2:
					k := x.ChooseFree(8) + 1
					ch := []string{"`", "~"}[x.ChooseFree(2)]
					tail := []string{"", " go", "go`", " ~"}[x.ChooseFree(4)]
					c15Fence(x, strings.Repeat(ch, k)+tail+"\n")
				case 3:
					k := x.ChooseFree(8) + 59
					lab := strings.Repeat("b", k)
					s := []string{"a@" + lab, "a@" + lab + ".c", "a@c." + lab, "a@" + "b" + strings.Repeat("-", k-2) + "b"}[x.ChooseFree(4)]
					c15Email(x, s)
					c15Autolink(x, "<"+s+">")
				}
			})
		},
	})
}

func c15Byte(x *X, b byte) {
	in := []byte{b}
	type cl struct {
		name      string
		got, want bool
	}
	cs := []cl{
		{"isASCIIPunctuation", cm.VerifIsASCIIPunctuation(b), ref.IsASCIIPunctuation(b)},
		{"isHex", cm.VerifIsHex(b), ref.IsHexDigit(b)},
		{"isASCIIControl", cm.VerifIsASCIIControl(b), ref.IsASCIIControl(b)},
		{"isASCIILetter", cm.VerifIsASCIILetter(b), ref.IsASCIILetter(b)},
		{"isASCIIDigit", cm.VerifIsASCIIDigit(b), ref.IsASCIIDigit(b)},
		{"isSpaceTabOrLineEnding", cm.VerifIsSpaceTabOrLineEnding(b), ref.IsSpaceTabOrLineEnding(b)},
		{"isUnicodeWhitespace", cm.VerifIsUnicodeWhitespace(rune(b)), ref.IsUnicodeWhitespace(rune(b))},
		{"isUnicodePunctuation", cm.VerifIsUnicodePunctuation(rune(b)), ref.IsUnicodePunctuation(rune(b))},
	}
	any := false
	for _, c := range cs {
		if c.got != c.want {
			x.Fail("classifier:"+c.name, "", in, "%s(%#02x)=%v, spec says %v", c.name, b, c.got, c.want)
		}
		any = any || c.want
	}
	x.Validated()
	if any {
		x.Nontrivial()
	}
	x.Outcome(uint64(b))
	x.Sample(fmt.Sprintf("byte %#02x", b))
}

func c15CodePoints(x *X, block int) {
	members := 0
	for r := rune(block * 256); r < rune(block*256+256); r++ {
		gw, ww := cm.VerifIsUnicodeWhitespace(r), ref.IsUnicodeWhitespace(r)
		gp, wp := cm.VerifIsUnicodePunctuation(r), ref.IsUnicodePunctuation(r)
		if gw != ww {
			x.Fail("classifier:isUnicodeWhitespace", "", []byte(string(r)), "isUnicodeWhitespace(U+%04X)=%v, spec says %v", r, gw, ww)
		}
		if gp != wp {
			x.Fail("classifier:isUnicodePunctuation", "", []byte(string(r)), "isUnicodePunctuation(U+%04X)=%v, spec says %v", r, gp, wp)
		}
		if ww || wp {
			members++
		}
	}
	x.Validated()
	if members > 0 {
		x.Nontrivial()
	}
	x.Outcome(uint64(block)<<16 | uint64(members))
	x.Sample(fmt.Sprintf("code points U+%04X..U+%04X (%d whitespace/punctuation)", block*256, block*256+255, members))
}

func firstRoot(doc string) (*cm.RootBlock, []*cm.RootBlock) {
	blocks, _ := cm.Parse([]byte(doc))
	if len(blocks) == 0 {
		return nil, nil
	}
	return blocks[0], blocks
}

func c15ATX(x *X, line string) {
	if !ref.IsLine(line) {
		return
	}
	in := []byte(line)
	wl, ws, we := ref.ATXHeading(line)
	gl, gc := cm.VerifATXHeading(in)
	x.Validated()
	if gl != wl {
		x.Fail("atx-level", "hook", in, "parseATXHeading level=%d, spec says %d", gl, wl)
		return
	}
	if wl > 0 {
		x.Nontrivial()
		if !gc.IsValid() || gc.End > len(line) {
			x.Fail("atx-content", "hook", in, "parseATXHeading content span %v invalid", gc)
			return
		}
		got, want := line[gc.Start:gc.End], line[ws:we]
		if got != want || (want != "" && gc.Start != ws) {
			// Known finding "atx-backslash-space": the library keeps exactly one trailing
			// space or tab when it directly follows an odd run of backslashes (it treats
			// "\\ " as an escaped space; its own unit test pins this). Only that exact
			// shape gets the separate kind; the cross-check through Parse continues with
			// the library's range.
			nb := 0
			for nb < len(want) && want[len(want)-1-nb] == '\\' {
				nb++
			}
			if gc.Start == ws && nb%2 == 1 && len(got) == len(want)+1 && got[:len(want)] == want && (got[len(want)] == ' ' || got[len(want)] == '\t') {
				x.Fail("atx-content:backslash-space-kept", "hook", in, "parseATXHeading content=%q, spec says %q (raw content is stripped of trailing spaces and tabs; a backslash does not escape a space)", got, want)
				we = gc.End
			} else {
				x.Fail("atx-content", "hook", in, "parseATXHeading content=%q at %v, spec says %q at [%d,%d)", got, gc, want, ws, we)
				return
			}
		}
	}
	// Through Parse.
	rb, _ := firstRoot(line)
	isH := rb != nil && rb.Kind() == cm.ATXHeadingKind
	if isH != (wl > 0) || (isH && rb.HeadingLevel() != wl) {
		x.Fail("atx-level", "parse", in, "Parse: first root block is %v level %d, spec says ATX level %d", kindOf(rb), levelOf(rb), wl)
		return
	}
	if isH {
		for i := 0; i < rb.ChildCount(); i++ {
			sp := rb.Child(i).Span()
			if sp.Start < ws || sp.End > we {
				x.Fail("atx-content", "parse", in, "Parse: heading child %d span %v lies outside the content range [%d,%d) = %q", i, sp, ws, we, line[ws:we])
				return
			}
		}
		if rb.ChildCount() == 0 && strings.Trim(line[ws:we], "\\") != "" && we > ws {
			x.Fail("atx-content", "parse", in, "Parse: heading has no children but the content is %q", line[ws:we])
			return
		}
	}
	x.Outcome(tree.Hash64(line) ^ uint64(wl))
	x.Sample(q(in))
}

func kindOf(rb *cm.RootBlock) string {
	if rb == nil {
		return "none"
	}
	return rb.Kind().String()
}

func levelOf(rb *cm.RootBlock) int {
	if rb == nil {
		return 0
	}
	return rb.HeadingLevel()
}

func c15Thematic(x *X, line string) {
	if !ref.IsLine(line) {
		return
	}
	in := []byte(line)
	want := ref.ThematicBreak(line)
	got := cm.VerifThematicBreak(in)
	x.Validated()
	if got != want {
		x.Fail("thematic-break", "hook", in, "parseThematicBreak=%d, spec says %d", got, want)
		return
	}
	rb, _ := firstRoot(line)
	isT := rb != nil && rb.Kind() == cm.ThematicBreakKind
	if isT != (want >= 0) {
		x.Fail("thematic-break", "parse", in, "Parse: first root block is %v, spec says thematic break: %v", kindOf(rb), want >= 0)
		return
	}
	if want >= 0 {
		x.Nontrivial()
	}
	x.Outcome(tree.Hash64(line) ^ uint64(want+1))
	x.Sample(q(in))
}

func c15Setext(x *X, line string) {
	if !ref.IsLine(line) {
		return
	}
	in := []byte(line)
	want := ref.SetextUnderline(line)
	got := cm.VerifSetextUnderline(in)
	x.Validated()
	if got != want {
		x.Fail("setext-underline", "hook", in, "parseSetextHeadingUnderline=%d, spec says %d", got, want)
		return
	}
	rb, _ := firstRoot("a\n" + line)
	isS := rb != nil && rb.Kind() == cm.SetextHeadingKind
	if isS != (want > 0) || (isS && rb.HeadingLevel() != want) {
		x.Fail("setext-underline", "parse", in, "Parse(\"a\\n\"+line): first root block is %v level %d, spec says setext level %d", kindOf(rb), levelOf(rb), want)
		return
	}
	if want > 0 {
		x.Nontrivial()
	}
	x.Outcome(tree.Hash64(line) ^ uint64(want))
	x.Sample(q(in))
}

func c15Fence(x *X, line string) {
	if !ref.IsLine(line) {
		return
	}
	in := []byte(line)
	wc, wn, winfo := ref.CodeFence(line)
	gc, gn, ginfo := cm.VerifCodeFence(in)
	x.Validated()
	if gn != wn || (wn > 0 && gc != wc) {
		x.Fail("code-fence", "hook", in, "parseCodeFence=(%q,%d), spec says (%q,%d)", gc, gn, wc, wn)
		return
	}
	if wn > 0 {
		x.Nontrivial()
		gi := ""
		if ginfo.IsValid() && ginfo.End <= len(line) {
			gi = line[ginfo.Start:ginfo.End]
		}
		if gi != winfo {
			x.Fail("code-fence-info", "hook", in, "parseCodeFence info=%q (%v), spec says %q", gi, ginfo, winfo)
			return
		}
	}
	rb, _ := firstRoot(line)
	isF := rb != nil && rb.Kind() == cm.FencedCodeBlockKind
	if isF != (wn > 0) {
		x.Fail("code-fence", "parse", in, "Parse: first root block is %v, spec says fence: %v", kindOf(rb), wn > 0)
		return
	}
	if isF {
		gi := ""
		if is := rb.InfoString(); is != nil {
			gi = string(rb.Source[is.Span().Start:is.Span().End])
		}
		if gi != winfo {
			x.Fail("code-fence-info", "parse", in, "Parse: info string %q, spec says %q", gi, winfo)
			return
		}
	}
	x.Outcome(tree.Hash64(line) ^ uint64(wn))
	x.Sample(q(in))
}

func c15Marker(x *X, line string) {
	if !ref.IsLine(line) {
		return
	}
	in := []byte(line)
	wd, wn, ww := ref.ListMarker(line)
	gd, gn, ge := cm.VerifListMarker(in)
	x.Validated()
	if (ge < 0) != (ww < 0) || (ww >= 0 && (gd != wd || gn != wn || ge != ww)) {
		x.Fail("list-marker", "hook", in, "parseListMarker=(%q,%d,%d), spec says (%q,%d,%d)", gd, gn, ge, wd, wn, ww)
		return
	}
	// Through Parse: a marker line opens a list unless it is a thematic break.
	rb, _ := firstRoot(line)
	isL := rb != nil && rb.Kind() == cm.ListKind
	wantL := ww >= 0 && ref.ThematicBreak(line) < 0
	if isL != wantL {
		x.Fail("list-marker", "parse", in, "Parse: first root block is %v, spec says list: %v", kindOf(rb), wantL)
		return
	}
	if isL {
		ordered := wd == '.' || wd == ')'
		item := rb.Child(0).Block()
		num := -1
		if ordered {
			num = wn
		}
		if rb.IsOrderedList() != ordered || item == nil || item.ListItemNumber(rb.Source) != num {
			x.Fail("list-marker", "parse", in, "Parse: list ordered=%v number=%d, spec says ordered=%v number=%d", rb.IsOrderedList(), item.ListItemNumber(rb.Source), ordered, num)
			return
		}
	}
	if ww >= 0 {
		x.Nontrivial()
	}
	x.Outcome(tree.Hash64(line) ^ uint64(ww+1))
	x.Sample(q(in))
}

func c15URI(x *X, s string) {
	in := []byte(s)
	out := cm.NormalizeURI(s)
	x.Validated()
	if ok, at := ref.WellFormedURI(out); !ok {
		x.Fail("uri-alphabet", "", in, "NormalizeURI(%q)=%q: byte %d is not an RFC 3986 reserved/unreserved character or a well-formed percent escape", s, out, at)
		return
	}
	if again := cm.NormalizeURI(out); again != out {
		x.Fail("uri-not-idempotent", "", in, "NormalizeURI(%q)=%q but NormalizeURI of that is %q", s, out, again)
		return
	}
	if out != s {
		x.Nontrivial()
	}
	if !utf8.ValidString(s) {
		x.Count("uri_invalid_utf8_arguments")
	}
	x.Outcome(tree.Hash64(out))
	x.Sample(fmt.Sprintf("%q -> %q", s, out))
}

func c15Email(x *X, s string) {
	in := []byte(s)
	got, want := cm.IsEmailAddress(s), ref.IsEmailAddress(s)
	x.Validated()
	if got != want {
		x.Fail("email", "", in, "IsEmailAddress(%q)=%v, spec regular expression says %v", s, got, want)
		return
	}
	if want {
		x.Nontrivial()
	}
	x.Outcome(tree.Hash64(s))
	x.Sample(fmt.Sprintf("%q email=%v", truncate(s, 80), want))
}

func c15Autolink(x *X, s string) {
	if len(s) == 0 || s[0] != '<' {
		return
	}
	in := []byte(s)
	got, want := cm.VerifAutolink(in), ref.Autolink(s)
	x.Validated()
	if got != want {
		x.Fail("autolink", "hook", in, "parseAutolink(%q)=%d, spec says %d", s, got, want)
		return
	}
	if want >= 0 {
		x.Nontrivial()
	}
	x.Outcome(tree.Hash64(s) ^ uint64(want+1))
	x.Sample(fmt.Sprintf("%q autolink end=%d", truncate(s, 80), want))
}
