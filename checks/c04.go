package checks

import (
	"bytes"
	"encoding/hex"
	"encoding/json"
	"fmt"
	"io"
	"os"
	"os/exec"
	"path/filepath"
	"strings"
	"time"
	"unicode/utf8"

	"verif/mc"
	"verif/spaces"
	"verif/tree"

	cm "zombiezen.com/go/commonmark"
	"zombiezen.com/go/commonmark/format"
)

// ---------------------------------------------------------------------------
// C04: parsing, rendering, formatting and walking are total.

// Step counting ("fuel") over the statement-level instrumentation.
var (
	stepCount int64
	stepLimit int64
)

type fuelExhausted struct{ limit int64 }

func fuelPoint(id int) {
	stepCount++
	if stepCount > stepLimit {
		stepLimit = 1 << 62 // let the panic unwind through deferred instrumented code
		panic(fuelExhausted{})
	}
}

// Instrumented reports whether this binary was built with the statement-level overlay.
func Instrumented() bool {
	saved := cm.VerifPoint
	n := 0
	cm.VerifPoint = func(int) { n++ }
	cm.Parse([]byte("a"))
	cm.VerifPoint = saved
	return n > 0
}

// runOp runs f under a step budget and reports steps, panic value and exhaustion.
func runOp(limit int64, f func()) (steps int64, panicked bool, val any, exhausted bool) {
	saved := cm.VerifPoint
	cm.VerifPoint = fuelPoint
	stepCount, stepLimit = 0, limit
	defer func() {
		cm.VerifPoint = saved
		steps = stepCount
		if r := recover(); r != nil {
			if _, ok := r.(fuelExhausted); ok {
				exhausted = true
				steps = limit
				return
			}
			if fe, ok := r.(*mc.FrameworkError); ok {
				panic(fe)
			}
			panicked, val = true, r
		}
	}()
	f()
	return
}

var c04Plan = []planEntry{
	{spaces.B, 5, 6},
	{spaces.I, 4, 5},
	{spaces.L, 3, 3},
	{spaces.XHead, 5, 6},
	{spaces.XRef, 5, 6},
	{spaces.XLink, 5, 6},
	{spaces.XCode, 5, 6},
	{spaces.XHTML, 5, 6},
	{spaces.XEmph, 5, 6},
	{spaces.XList, 5, 6},
	{spaces.XNul, 5, 6},
	{spaces.XEol, 5, 6},
	{spaces.Inj, 4, 5},
	{spaces.XEnt, 4, 5},
	{spaces.XPhrase, 4, 5},
	{spaces.XInfo, 4, 5},
	{spaces.XRefHead, 5, 6},
	{spaces.XWs, 4, 5},
}

type healthyWriter struct{ n int }

func (w *healthyWriter) Write(p []byte) (int, error) { w.n += len(p); return len(p), nil }

func fuelBound(n int) int64 { return 10_000_000 + 1000*int64(n)*int64(n) }

func init() {
	register(&Check{
		ID:   "C04",
		Rule: "every token sequence up to the stated length over each declared alphabet and every member of the parametric families (deep nesting, long runs, unterminated constructs) goes through Parse, NextBlock+Extract+Rewrite, Render under 24 configurations (3 soft-break behaviours x IgnoreRaw x FilterTag in {nil, GFM, always, never}), Format and Walk, in a worker built with statement-level step counting; non-trivial = the input is not valid UTF-8, or contains NUL or a lone CR, or ends inside an open construct (its last byte is one of ` [ ( < ! \\ * _ & ~ \" ' or it has no final line ending after a container marker), or is longer than 64 bytes",
		Assumptions: []string{
			"'loops forever' is decided by a deterministic step bound of 10^7 + 10^3*len(input)^2 instrumented statements per operation (the measured maximum and its ratio to the bound are reported under coverage.maxima); a wall-clock watchdog exists only as a backstop for loops inside uninstrumented dependencies",
			"a Go fatal error (stack overflow, out of memory) kills the worker; the orchestrator attributes it to the in-flight input and reports it as a violation",
			"reader = bytes.Reader, writer = a counting writer that never fails",
		},
		ReplayInput: func(x *X, in []byte) {
			if !Instrumented() {
				panic(&mc.FrameworkError{Msg: "C04 needs the instrumented worker flavour"})
			}
			c04Driver(x, in)
		},
		Run: func(c *Ctx) {
			if !Instrumented() {
				panic(&mc.FrameworkError{Msg: "C04 needs the instrumented worker flavour (./run builds it); VerifStep is not being called"})
			}
			for _, p := range c04Plan {
				sp := p.sp
				n := c.Pick(p.quick, p.thorough)
				c.Explore(sp.Name, fmt.Sprintf("all inputs of <=%d tokens over %d tokens: %s", n, len(sp.Tokens), sp.Doc), -1, n, func(x *X) {
					in := x.Tokens(sp, n)
					x.InFlight(sp.Name, in)
					c04Driver(x, in)
				})
			}
			// Deep emphasis strings: the delimiter stack with its search bounds needs
			// a dozen and more symbols before entries are deleted and searched again;
			// only Parse and one Render are run here to afford that depth.
			for _, p := range []planEntry{{spaces.Emph4, 12, 14}, {spaces.Emph3, 14, 16}, {spaces.XDRuns, 6, 7}} {
				sp := p.sp
				n := c.Pick(p.quick, p.thorough)
				c.Explore(sp.Name+"-parse", fmt.Sprintf("all inputs of <=%d tokens over %q: Parse and default Render only", n, sp.Tokens), -1, n, func(x *X) {
					in := x.Tokens(sp, n)
					x.InFlight(sp.Name+"-parse", in)
					c04ParseOnly(x, in)
				})
			}
			fams := spaces.Families()
			maxK := c.Pick(512, 4096)
			c.Explore("families", fmt.Sprintf("parametric families (DESIGN.md 4.4): %d families x k in {1..64} and powers-of-two-ish steps up to %d", len(fams), maxK), -1, maxK, func(x *X) {
				fi := x.ChooseFree(len(fams))
				ks := familyKs(maxK)
				k := ks[x.ChooseFree(len(ks))]
				if fams[fi].MaxK > 0 && k > fams[fi].MaxK {
					return
				}
				in := fams[fi].Gen(k)
				x.InFlight("families", in)
				c04Driver(x, in)
			})
		},
	})
	CrashHandlers["C04"] = c04Crash
}

// familyKs: every k up to 64, then 96, 128, 192, 256, ... up to maxK.
func familyKs(maxK int) []int {
	var ks []int
	for k := 1; k <= 64 && k <= maxK; k++ {
		ks = append(ks, k)
	}
	for k := 96; k <= maxK; {
		ks = append(ks, k)
		if k&(k-1) == 0 {
			k += k / 2
		} else {
			k = (k / 3) * 4
		}
	}
	return ks
}

var c04Filters = []filterPred{
	{"nil", nil},
	{"GFM", cm.FilterTagGFM},
	{"always", func([]byte) bool { return true }},
	{"never", func([]byte) bool { return false }},
}

// c04ParseOnly runs Parse and one Render under the step bound.
func c04ParseOnly(x *X, in []byte) {
	bound := fuelBound(len(in))
	var blocks []*cm.RootBlock
	var refs cm.ReferenceMap
	steps, p, v, e := runOp(bound, func() { blocks, refs = cm.Parse(clone(in)) })
	x.Validated()
	x.Max("max_steps_Parse", steps)
	if e {
		x.Fail("does-not-terminate", "Parse", in, "Parse executed more than %d instrumented statements on a %d-byte input (step bound)", bound, len(in))
		return
	}
	if p {
		x.Fail("panic", "Parse", in, "Parse panicked: %v", v)
		return
	}
	steps, p, v, e = runOp(bound, func() { renderHTML(&cm.HTMLRenderer{ReferenceMap: refs}, blocks) })
	x.Max("max_steps_Render", steps)
	if e {
		x.Fail("does-not-terminate", "Render/default", in, "Render executed more than %d instrumented statements (step bound)", bound)
		return
	}
	if p {
		x.Fail("panic", "Render/default", in, "Render panicked: %v", v)
		return
	}
	if len(in) > 0 && strings.ContainsRune("*_", rune(in[len(in)-1])) {
		x.Nontrivial()
	}
	x.Outcome(tree.Hash64(tree.Dump(blocks, nil, 0)))
	x.Sample(q(in))
}

func c04Driver(x *X, in []byte) {
	bound := fuelBound(len(in))
	fail := func(op string, steps int64, panicked bool, val any, exhausted bool) bool {
		x.Max("max_steps_"+strings.SplitN(op, "/", 2)[0], steps)
		x.Max("max_steps_per_million_of_bound", steps*1_000_000/bound)
		if exhausted {
			x.Fail("does-not-terminate", op, in, "%s executed more than %d instrumented statements on a %d-byte input (step bound)", op, bound, len(in))
			return true
		}
		if panicked {
			x.Fail("panic", op, in, "%s panicked: %v", op, val)
			return true
		}
		return false
	}
	var blocks []*cm.RootBlock
	var refs cm.ReferenceMap
	steps, p, v, e := runOp(bound, func() { blocks, refs = cm.Parse(clone(in)) })
	x.Validated()
	if fail("Parse", steps, p, v, e) {
		return
	}
	var serr error
	var sblocks []*cm.RootBlock
	steps, p, v, e = runOp(bound, func() {
		bp := cm.NewBlockParser(bytes.NewReader(clone(in)))
		srefs := make(cm.ReferenceMap)
		for {
			b, err := bp.NextBlock()
			if err != nil {
				serr = err
				break
			}
			sblocks = append(sblocks, b)
			srefs.Extract(b.Source, b.AsNode())
			if len(sblocks) > len(in)+2 {
				serr = fmt.Errorf("more root blocks than input bytes")
				break
			}
		}
		ip := &cm.InlineParser{ReferenceMatcher: srefs}
		for _, b := range sblocks {
			ip.Rewrite(b)
		}
	})
	if fail("NextBlock+Rewrite", steps, p, v, e) {
		return
	}
	if serr != io.EOF {
		x.Fail("parser-error", "NextBlock+Rewrite", in, "block parser over a healthy reader ended with %v, want io.EOF", serr)
		return
	}
	for sb := 0; sb < 3; sb++ {
		for _, ignore := range []bool{false, true} {
			for _, fp := range c04Filters {
				op := fmt.Sprintf("Render/SoftBreak=%d,IgnoreRaw=%v,Filter=%s", sb, ignore, fp.name)
				var rerr error
				steps, p, v, e = runOp(bound, func() {
					r := &cm.HTMLRenderer{ReferenceMap: refs, SoftBreakBehavior: cm.SoftBreakBehavior(sb), IgnoreRaw: ignore, FilterTag: fp.f}
					rerr = r.Render(&healthyWriter{}, blocks)
				})
				if fail(op, steps, p, v, e) {
					return
				}
				if rerr != nil {
					x.Fail("render-error", op, in, "Render to a healthy writer returned %v", rerr)
					return
				}
			}
		}
	}
	var ferr error
	steps, p, v, e = runOp(bound, func() { ferr = format.Format(&healthyWriter{}, blocks) })
	if fail("Format", steps, p, v, e) {
		return
	}
	if ferr != nil {
		x.Fail("format-error", "Format", in, "Format to a healthy writer returned %v", ferr)
		return
	}
	pre, post := 0, 0
	steps, p, v, e = runOp(bound, func() {
		for _, b := range blocks {
			cm.Walk(b.AsNode(), &cm.WalkOptions{
				Pre:  func(*cm.Cursor) bool { pre++; return true },
				Post: func(*cm.Cursor) bool { post++; return true },
			})
		}
	})
	if fail("Walk", steps, p, v, e) {
		return
	}
	if pre != post {
		x.Fail("walk-count", "Walk", in, "Walk made %d Pre and %d Post calls", pre, post)
		return
	}
	nt := false
	if !utf8.Valid(in) {
		x.Count("inputs_invalid_utf8")
		nt = true
	}
	if bytes.IndexByte(in, 0) >= 0 {
		x.Count("inputs_with_nul")
		nt = true
	}
	if i := bytes.IndexByte(in, '\r'); i >= 0 && (i+1 >= len(in) || in[i+1] != '\n') {
		x.Count("inputs_with_lone_cr")
		nt = true
	}
	if n := len(in); n > 0 && strings.IndexByte("`[(<!\\*_&~\"'", in[n-1]) >= 0 {
		x.Count("inputs_ending_in_open_construct")
		nt = true
	}
	if len(in) > 64 {
		x.Count("inputs_longer_than_64_bytes")
		nt = true
	}
	if nt {
		x.Nontrivial()
	}
	x.Outcome(tree.Hash64(tree.Dump(blocks, nil, 0)) ^ uint64(pre))
	x.Sample(q(in))
}

// c04Crash decides what a dead worker means: its in-flight input is re-run
// alone in a fresh instrumented process; only if that process dies too (or
// exceeds a generous limit) is the crash attributed to the input and reported.
func c04Crash(verifDir string, crashed []CrashInfo) int {
	bin := os.Getenv("VERIF_WORKER_BIN")
	rc := 2
	for _, ci := range crashed {
		parts := strings.Fields(string(ci.Inflight))
		if len(parts) != 2 || bin == "" {
			fmt.Printf("FRAMEWORK-ERROR: worker %d died (%s) and no in-flight input was recorded:\n%s\n", ci.Worker, ci.Err, ci.Stderr)
			continue
		}
		cmd := exec.Command(bin, "one", "C04", parts[1])
		cmd.Env = append(os.Environ(), "GOMAXPROCS=2")
		done := make(chan error, 1)
		var out bytes.Buffer
		cmd.Stdout, cmd.Stderr = &out, &out
		if err := cmd.Start(); err != nil {
			fmt.Println("FRAMEWORK-ERROR:", err)
			continue
		}
		go func() { done <- cmd.Wait() }()
		var err error
		hung := false
		select {
		case err = <-done:
		case <-time.After(10 * time.Minute):
			cmd.Process.Kill()
			<-done
			hung = true
		}
		if err == nil && !hung {
			fmt.Printf("FRAMEWORK-ERROR: worker %d died (%s) but its in-flight input %s passes when run alone; not attributed:\n%s\n", ci.Worker, ci.Err, parts[1], ci.Stderr)
			continue
		}
		if ee, ok := err.(*exec.ExitError); ok && ee.ExitCode() == 1 {
			// The single run reported an ordinary violation (printed below).
		}
		v := Violation{Property: "C04", Kind: "fatal-error-or-hang", Exploration: parts[0], InputHex: parts[1]}
		if raw, derr := hex.DecodeString(parts[1]); derr == nil {
			v.InputQuoted = fmt.Sprintf("%q", truncate(string(raw), 200))
		}
		v.Message = fmt.Sprintf("worker %d died (%s) on this input, and a fresh process running it alone ended with %v (hung=%v):\n%s", ci.Worker, ci.Err, err, hung, truncate(out.String(), 3000))
		dir := filepath.Join(verifDir, "replays", "C04")
		os.MkdirAll(dir, 0o755)
		path := filepath.Join(dir, fmt.Sprintf("crash-%016x.json", fnv(v.Exploration+v.InputHex)))
		v.Replay = path
		data, _ := json.MarshalIndent(&v, "", " ")
		os.WriteFile(path, data, 0o644)
		fmt.Printf("VIOLATION property=C04 replay=%s\n  kind=%s exploration=%s input=%s\n  %s\n", path, v.Kind, v.Exploration, v.InputQuoted, truncate(v.Message, 1500))
		rc = 1
	}
	return rc
}
