package checks

import (
	"fmt"
	"regexp"
	"strings"

	"verif/ref"
	"verif/spaces"
	"verif/tree"

	cm "zombiezen.com/go/commonmark"
)

// ---------------------------------------------------------------------------
// C12: references resolve by normalized label; the first definition wins.

var spLabel = spaces.Space{Name: "labels", Doc: "label tokens: case pairs, multi-character folds, label whitespace, NBSP, escaped brackets, emphasis character",
	Tokens: []string{"a", "A", "\u00df", "\u1e9e", "ss", "\u0130", "\u00e9", "\u00c9", " ", "\t", "\n", "\u00a0", "\\]", "\\[", "*"}}

// spLabelNul: labels containing NUL (replaced by U+FFFD, spec 2.3) in runs of
// different lengths, next to letters with case variants and label whitespace.
var spLabelNul = spaces.Space{Name: "labels-nul", Doc: "label tokens with NUL runs", Tokens: []string{"a", "\x00", " ", "A", "\u00e9", "\ufffd"}}

func init() {
	spaces.All = append(spaces.All, spLabel, spLabelNul)
	register(&Check{
		ID:   "C12",
		Rule: "(a) every ordered pair (use label, definition label) of token sequences up to the stated lengths over the label alphabet, in a document that uses the label as shortcut, collapsed and full reference link and as image; pairs whose labels would break the paragraph (blank line inside, or a line starting with * inside) are skipped and counted; (b) every sequence of up to 4 segments with exactly one use and 1-3 competing definitions (plain, in a block quote, in a list item, two in one paragraph; three label spellings); (c) closure laws on every input of the general spaces; non-trivial = (a) both labels valid and their normal forms equal although the raw labels differ, or differ only by something normalisation must not ignore; (b) >= 2 definitions; (c) the document has a reference-style link or image",
		Assumptions: []string{
			"label normalisation reference: spec 6.3 with a hand-written full-case-folding table for the characters of the alphabet (Unicode CaseFolding.txt), independent of x/text",
			"raw unescaped brackets inside labels are not generated; invalid labels are the empty and the whitespace-only ones",
		},
		SelfTest: func() error {
			if err := ref.RefDefSelfTest(); err != nil {
				return err
			}
			return ref.LabelSelfTest()
		},
		Run: func(c *Ctx) {
			nu, nd := c.Pick(3, 4), c.Pick(2, 3)
			c.Explore("label-pairs", fmt.Sprintf("use labels of <=%d tokens x definition labels of <=%d tokens over %q", nu, nd, spLabel.Tokens), -1, nu+nd, func(x *X) {
				u := string(x.Tokens(spLabel, nu))
				d := string(x.Tokens(spLabel, nd))
				c12Pair(x, u, d)
			})
			nun, ndn := c.Pick(4, 5), c.Pick(3, 4)
			c.Explore("label-pairs-nul", fmt.Sprintf("use labels of <=%d tokens x definition labels of <=%d tokens over %q (NUL is replaced by U+FFFD before matching)", nun, ndn, spLabelNul.Tokens), -1, nun+ndn, func(x *X) {
				u := string(x.Tokens(spLabelNul, nun))
				d := string(x.Tokens(spLabelNul, ndn))
				c12Pair(x, u, d)
			})
			c.Inputs(spDefGram, c.Pick(6, 7), c12DefGrammar)
			c.Inputs(spBrackets, c.Pick(8, 9), c12Brackets)
			c.Explore("reference-forms", "every sequence of <=7 tokens over {[a] [b] [] (u) ! space x} between two letters, with [a] defined and [b] not: which bracket pairs are inline links, full, collapsed and shortcut references or images, and which are text", -1, 7, c12RefForms)
			c.Explore("ordering", "all sequences of <=4 segments with one use and 1-3 competing definitions; a segment is the use (shortcut, collapsed, full reference or collapsed image; in a paragraph or as an ATX heading), a definition at top level / in a quote / in a list item / in a list item in a quote / twice in one paragraph, or (at most once) one root container holding a tree of quotes and list items of depth <=3 with definitions at different depths in every order; with and without a final line ending", -1, 4, c12Ordering)
			for _, p := range []planEntry{{spaces.I, 4, 5}, {spaces.XRef, 5, 6}, {spaces.XLink, 5, 6}, {spaces.L, 3, 4}, {spaces.XNulRef, 5, 6}, {spaces.XDefs, 5, 6}, {spaces.XRefTail, 5, 6}} {
				sp := p.sp
				n := c.Pick(p.quick, p.thorough)
				c.Explore("closure-"+sp.Name, fmt.Sprintf("closure laws on all inputs of <=%d tokens over %s", n, sp.Name), -1, n, func(x *X) {
					c12Closure(x, x.Tokens(sp, n))
				})
			}
		},
	})
}

var reBreaksParagraph = regexp.MustCompile(`\n[ \t]*(\n|\*|$)`)

// labelUsable reports whether a raw label can sit inside one paragraph.
func labelUsable(l string) bool {
	return !reBreaksParagraph.MatchString(l) && !strings.HasPrefix(strings.TrimLeft(l, " \t"), "\n\n")
}

func c12Pair(x *X, u, d string) {
	if !labelUsable(u) || !labelUsable(d) {
		x.Count("pairs_skipped_label_breaks_paragraph")
		return
	}
	// Spec 2.3: U+0000 is replaced by U+FFFD before anything else happens.
	nu, vu := ref.NormLabel(strings.ReplaceAll(u, "\x00", "\ufffd"))
	nd, vd := ref.NormLabel(strings.ReplaceAll(d, "\x00", "\ufffd"))
	want := vu && vd && nu == nd
	doc := "[" + u + "]\n\n[" + u + "][]\n\n[zq][" + u + "]\n\n![" + u + "]\n\n[" + d + "]: /dest\n"
	in := []byte(doc)
	blocks, refs := cm.Parse(clone(in))
	x.Validated()
	forms := []string{"shortcut", "collapsed", "full", "image"}
	if len(blocks) < 4 {
		x.Fail("pair-document-shape", "", in, "expected >= 4 root blocks, got %d", len(blocks))
		return
	}
	r := &cm.HTMLRenderer{ReferenceMap: refs}
	for i, form := range forms {
		out := string(r.AppendBlock(nil, blocks[i]))
		got := strings.Contains(out, `href="/dest"`) || strings.Contains(out, `src="/dest"`)
		if got != want {
			x.Fail("resolution", form, in, "use label %q (normal form %q, valid %v), definition label %q (normal form %q, valid %v): %s reference resolved=%v, want %v; rendered %q", u, nu, vu, d, nd, vd, form, got, want, out)
			return
		}
	}
	// A label that spans lines, used inside a block quote and inside a list item:
	// the container prefix of the continuation line is not part of the label.
	if strings.Contains(u, "\n") && !strings.Contains(u, "\x00") {
		for _, cv := range []struct{ name, first, rest string }{{"quote", "> ", "> "}, {"list-item", "- ", "  "}} {
			var sb strings.Builder
			for _, use := range []string{"[" + u + "]", "[" + u + "][]", "[zq][" + u + "]", "![" + u + "]"} {
				ls := strings.Split(use, "\n")
				for i, l := range ls {
					if i == 0 {
						sb.WriteString(cv.first + l + "\n")
					} else {
						sb.WriteString(cv.rest + l + "\n")
					}
				}
				sb.WriteString("\n")
			}
			sb.WriteString("[" + d + "]: /dest\n")
			cin := []byte(sb.String())
			cb, crefs := cm.Parse(clone(cin))
			out, _ := renderHTML(&cm.HTMLRenderer{ReferenceMap: crefs}, cb)
			n := strings.Count(out, `href="/dest"`) + strings.Count(out, `src="/dest"`)
			if (want && n != 4) || (!want && n != 0) {
				x.Fail("resolution", "all-forms/"+cv.name, cin, "use label %q (normal form %q, valid %v) inside a %s, definition label %q (normal form %q, valid %v): %d of the 4 reference forms resolved, want %v for all; rendered %q", u, nu, vu, cv.name, d, nd, vd, n, want, out)
				return
			}
			x.Count("pairs_also_in_containers")
		}
	}
	if vd {
		if def, ok := refs[nd]; !ok || def.Destination != "/dest" {
			x.Fail("map-key", "", in, "definition label %q: reference map %v has no entry under the normal form %q", d, keysOf(refs), nd)
			return
		}
	}
	if len(refs) > 1 || (!vd && len(refs) > 0) {
		x.Fail("map-extra-keys", "", in, "reference map has unexpected keys %v", keysOf(refs))
		return
	}
	if vu && vd && (nu == nd) != (u == d) {
		x.Nontrivial()
		x.Count("pairs_match_with_different_spelling")
	} else if vu && vd && nu != nd && strings.EqualFold(strings.Join(strings.Fields(u), " "), strings.Join(strings.Fields(d), " ")) {
		x.Nontrivial()
		x.Count("pairs_differ_only_in_what_must_not_be_ignored")
	}
	x.Outcome(tree.Hash64(nu+"\x00"+nd) ^ boolHash(want))
	x.Sample(fmt.Sprintf("use %q / define %q -> match=%v", u, d, want))
}

func boolHash(b bool) uint64 {
	if b {
		return 0x9e3779b97f4a7c15
	}
	return 0
}

func keysOf(m cm.ReferenceMap) []string {
	var ks []string
	for k := range m {
		ks = append(ks, fmt.Sprintf("%q", k))
	}
	return ks
}

// c12Ordering: segments are chosen one by one; definitions are numbered in
// source order; the first one must supply destination and title.
func c12Ordering(x *X) {
	labels := []string{"foo", "FOO", "Foo\n bar"}
	li := x.ChooseFree(len(labels))
	lab := labels[li]
	useLab := []string{"foo", "Foo", "foo  BAR"}[li]
	var sb strings.Builder
	ndefs, uses := 0, 0
	useIsImage := false
	// The first definition (the one that must win) is also spelled with an empty
	// destination and no title, and with an empty destination and an empty title:
	// "already defined" must not be decided from the definition's value.
	firstStyle := x.ChooseFree(3)
	def := func(l string) string {
		ndefs++
		if ndefs == 1 && firstStyle == 1 {
			return fmt.Sprintf("[%s]: <>", l)
		}
		if ndefs == 1 && firstStyle == 2 {
			return fmt.Sprintf("[%s]: <> ''", l)
		}
		return fmt.Sprintf("[%s]: /d%d 't%d'", l, ndefs, ndefs)
	}
	nseg, nested := 0, 0
	for nseg < 4 {
		k := x.ChooseFree(9)
		if k == 0 {
			break
		}
		nseg++
		switch k {
		case 1:
			if uses > 0 {
				return // exactly one use; duplicates are the same document shape
			}
			uses++
			// The use: shortcut, collapsed, full reference or collapsed image, in a
			// paragraph or as the whole content of an ATX heading.
			form := x.ChooseFree(4)
			use := []string{"[" + useLab + "]", "[" + useLab + "][]", "[x][" + useLab + "]", "![" + useLab + "][]"}[form]
			useIsImage = form == 3
			if li != 2 && x.ChooseFree(2) == 1 {
				use = "# " + use // (a label spanning lines cannot sit in a heading)
			}
			sb.WriteString(use + "\n\n")
		case 2:
			sb.WriteString(def(lab) + "\n\n")
		case 3:
			sb.WriteString("> " + strings.ReplaceAll(def(lab), "\n", "\n> ") + "\n\n")
		case 4:
			sb.WriteString("- " + strings.ReplaceAll(def(lab), "\n", "\n  ") + "\n\n")
		case 5:
			sb.WriteString(def(lab) + "\n" + def(strings.ToUpper(lab)) + "\n\n")
		case 6:
			sb.WriteString("> - " + strings.ReplaceAll(def(lab), "\n", "\n>   ") + "\n\n")
		case 7, 8:
			// One root block holding a small tree of containers with definitions at
			// different depths, in every order (a deeper earlier definition against a
			// shallower later one, and so on).
			if nested > 0 {
				return
			}
			nested++
			lines := c12Nested(x, 2, func() []string { return strings.Split(def(lab), "\n") }, &ndefs)
			if lines == nil {
				return
			}
			sb.WriteString(strings.Join(c12Wrap(lines, k == 7), "\n") + "\n\n")
		}
	}
	if uses != 1 || ndefs == 0 || ndefs > 3 {
		return
	}
	doc := sb.String()
	if x.ChooseFree(2) == 1 {
		// no line ending after the last segment: the input ends with the use or
		// with a definition's last character
		doc = strings.TrimRight(doc, "\n")
	}
	in := []byte(doc)
	blocks, refs := cm.Parse(clone(in))
	out, _ := renderHTML(&cm.HTMLRenderer{ReferenceMap: refs}, blocks)
	x.Validated()
	wantDest, wantTitle, wantTP := "/d1", "t1", true
	switch firstStyle {
	case 1:
		wantDest, wantTitle, wantTP = "", "", false
	case 2:
		wantDest, wantTitle, wantTP = "", "", true
	}
	attrs := fmt.Sprintf(`="%s"`, wantDest)
	if wantTP {
		attrs += fmt.Sprintf(` title="%s"`, wantTitle)
	}
	wantTag := `<a href` + attrs + `>`
	if useIsImage {
		wantTag = `<img src` + attrs + ` alt=`
	}
	if !strings.Contains(out, wantTag) {
		x.Fail("first-definition-wins", "", in, "the use must resolve to the first definition in source order (%q, title %q present=%v); rendered %q", wantDest, wantTitle, wantTP, out)
		return
	}
	key, _ := ref.NormLabel(lab)
	if d, ok := refs[key]; !ok || d.Destination != wantDest || d.Title != wantTitle || d.TitlePresent != wantTP || len(refs) != 1 {
		x.Fail("map-first-definition", "", in, "reference map %v: want exactly %q -> %q title %q (present=%v)", refs, key, wantDest, wantTitle, wantTP)
		return
	}
	if ndefs >= 2 {
		x.Nontrivial()
	}
	x.Outcome(tree.Hash64(sb.String()))
	x.Sample(q(in))
}

// c12Wrap puts lines into a block quote (quote) or a bullet list item.
func c12Wrap(lines []string, quote bool) []string {
	out := make([]string, len(lines))
	for i, l := range lines {
		switch {
		case quote && l == "":
			out[i] = ">"
		case quote:
			out[i] = "> " + l
		case i == 0:
			out[i] = "- " + l
		case l == "":
			out[i] = ""
		default:
			out[i] = "  " + l
		}
	}
	return out
}

// c12Nested chooses 1..3 child blocks separated by blank lines; each child is a
// definition or (depth permitting) a nested quote or list item. nil = more than
// three definitions (outside the exploration).
func c12Nested(x *X, depth int, def func() []string, ndefs *int) []string {
	var lines []string
	n := 1 + x.ChooseFree(3)
	for i := 0; i < n; i++ {
		if i > 0 {
			lines = append(lines, "")
		}
		k := 0
		if depth > 0 {
			k = x.ChooseFree(3)
		}
		if k == 0 {
			if *ndefs >= 3 {
				return nil
			}
			lines = append(lines, def()...)
			continue
		}
		sub := c12Nested(x, depth-1, def, ndefs)
		if sub == nil {
			return nil
		}
		lines = append(lines, c12Wrap(sub, k == 1)...)
	}
	return lines
}

func c12Closure(x *X, in []byte) {
	blocks, refs := cm.Parse(clone(in))
	x.Validated()
	hasRef := false
	for _, rb := range blocks {
		failed := false
		tree.Visit(rb.AsNode(), func(n, _ cm.Node, _ int) {
			i := n.Inline()
			if failed || i == nil || (i.Kind() != cm.LinkKind && i.Kind() != cm.ImageKind) {
				return
			}
			if r := i.LinkReference(); r != "" {
				hasRef = true
				if _, ok := refs[r]; !ok {
					x.Fail("dangling-reference", "", in, "%v node names reference %q, which is not a key of the returned map %v", i.Kind(), r, keysOf(refs))
					failed = true
				}
			}
		})
		if failed {
			return
		}
	}
	for k := range refs {
		if !ref.FoldKnown(k) {
			continue
		}
		if nk, ok := ref.NormLabel(k); !ok || nk != k {
			x.Fail("key-not-normalized", "", in, "reference map key %q is not in normal form (normalises to %q, valid %v)", k, nk, ok)
			return
		}
	}
	fresh := make(cm.ReferenceMap)
	for _, rb := range blocks {
		fresh.Extract(rb.Source, rb.AsNode())
	}
	if a, b := tree.Dump(nil, refs, tree.Refs), tree.Dump(nil, fresh, tree.Refs); a != b {
		x.Fail("map-differs-from-extract", "", in, "returned map:\n%s\nExtract over the returned blocks in order:\n%s", a, b)
		return
	}
	_, srefs, _ := parseStream(in)
	if a, b := tree.Dump(nil, refs, tree.Refs), tree.Dump(nil, srefs, tree.Refs); a != b {
		x.Fail("map-differs-from-streaming", "", in, "Parse map:\n%s\nstreaming pipeline map:\n%s", a, b)
		return
	}
	if hasRef {
		x.Nontrivial()
	}
	if len(refs) > 0 {
		x.Count("docs_with_definitions")
	}
	x.Outcome(tree.Hash64(tree.Dump(nil, refs, tree.Refs)) ^ tree.HashBytes(in))
	x.Sample(q(in))
}

// ---- definition grammar (spec 4.7) -----------------------------------------------------

var spDefGram = spaces.Space{Name: "X-defgram", Doc: "what follows a label and a colon at the start of a paragraph: destinations, titles in three quoting styles (complete and unterminated), further labels and colons, text, white space, line endings",
	Tokens: []string{"[a]", ":", " ", "\n", "/u", "<u v>", "<", "\"t\"", "'t'", "(t)", "\"t", "x"}, Prefix: "[a]:", Suffix: "\n"}

func init() { spaces.All = append(spaces.All, spDefGram) }

// c12DefGrammar: the document is one source paragraph that begins with "[a]:".
// ref.RefDefs (a transcription of spec 4.7, self-tested on the spec's examples)
// says how many definitions stand at its start, with which destination and
// title, and whether paragraph text remains; the root blocks and the reference
// map must say the same.
func c12DefGrammar(x *X, in []byte) {
	doc := string(in)
	for i, l := range strings.Split(strings.TrimSuffix(doc, "\n"), "\n") {
		if strings.TrimSpace(l) == "" {
			x.Count("defgram_skipped_blank_line")
			return
		}
		if t := strings.TrimLeft(l, " "); i > 0 && (len(l)-len(t) < 4) && (ref.HTMLBlockStart(l) >= 1 && ref.HTMLBlockStart(l) <= 6) {
			x.Count("defgram_skipped_html_block")
			return
		}
	}
	for _, v := range append([][]byte{in}, eolVariants(in)...) {
		if !c12DefGrammarOne(x, v) {
			return
		}
	}
}

func squeezeNL(s string) string {
	ls := strings.FieldsFunc(s, func(r rune) bool { return r == '\n' || r == '\r' })
	for i := range ls {
		if i > 0 {
			ls[i] = strings.TrimLeft(ls[i], " \t")
		}
	}
	return strings.Join(ls, "\n")
}

func c12DefGrammarOne(x *X, in []byte) bool {
	doc := string(in)
	want, rest := ref.RefDefs(doc)
	wantPara := strings.TrimSpace(doc[rest:]) != ""
	blocks, refs := cm.Parse(clone(in))
	x.Validated()
	var got []ref.RefDef
	gotPara := false
	shape := ""
	for _, b := range blocks {
		switch b.Kind() {
		case cm.LinkReferenceDefinitionKind:
			if gotPara {
				shape = "a definition after the paragraph"
			}
			d := ref.RefDef{Label: "a"}
			for i := 0; i < b.ChildCount(); i++ {
				if c := b.Child(i).Inline(); c != nil {
					switch c.Kind() {
					case cm.LinkDestinationKind:
						d.Dest = c.Text(b.Source)
					case cm.LinkTitleKind:
						d.Title, d.HasTitle = squeezeNL(c.Text(b.Source)), true
					}
				}
			}
			got = append(got, d)
		case cm.ParagraphKind:
			if gotPara {
				shape = "two paragraphs"
			}
			gotPara = true
		default:
			shape = fmt.Sprintf("a root block of kind %v", b.Kind())
		}
	}
	for i := range want {
		want[i].Label = "a"
		want[i].Title = squeezeNL(want[i].Title)
	}
	if shape != "" || fmt.Sprintf("%q", got) != fmt.Sprintf("%q", want) || gotPara != wantPara {
		x.Fail("definition-grammar", "", in, "%q: the root blocks are definitions %q, paragraph=%v %s; spec 4.7 gives definitions %q, remaining paragraph text=%v (%q)", doc, got, gotPara, shape, want, wantPara, doc[rest:])
		return false
	}
	if len(want) > 0 {
		d, ok := refs["a"]
		if !ok || len(refs) != 1 || d.Destination != want[0].Dest || squeezeNL(d.Title) != want[0].Title || d.TitlePresent != want[0].HasTitle {
			x.Fail("definition-grammar-map", "", in, "%q: reference map %v; the first definition is %q", doc, refs, want[0])
			return false
		}
		x.Nontrivial()
	} else if len(refs) != 0 {
		x.Fail("definition-grammar-map", "", in, "%q: reference map %v although the paragraph begins with no definition", doc, refs)
		return false
	}
	x.Outcome(tree.Hash64(fmt.Sprintf("%q %v", want, wantPara)))
	x.Sample(fmt.Sprintf("%q -> %q rest=%v", doc, want, wantPara))
	return true
}

// ---- which bracket pairs are links (spec 6.3, flat sequences) ------------------------------

var spRefForms = spaces.Space{Name: "X-refforms", Doc: "bracket pairs with a defined label, an undefined label and no label, an inline tail, an exclamation mark, text and spaces, in every order (no nesting: brackets only occur in pairs)",
	Tokens: []string{"[a]", "[b]", "[]", "(u)", "!", " ", "x"}, Prefix: "x", Suffix: "x\n\n[a]: /A\n"}

func init() { spaces.All = append(spaces.All, spRefForms) }

// c12RefForms reads a flat sequence of bracket pairs the way spec 6.3 defines
// inline, full, collapsed and shortcut references: a pair directly followed by
// "(u)" is an inline link; directly followed by "[]" it is a collapsed reference
// if its own label is defined; directly followed by another label it is a full
// reference if that label is defined and otherwise no link at all (a shortcut
// reference must not be followed by [] or a link label); otherwise it is a
// shortcut reference if its label is defined. "!" directly before a pair that
// becomes a link makes it an image.
func c12RefForms(x *X) {
	sp := spRefForms
	var toks []string
	for i := 0; i < 7; i++ {
		k := x.ChooseFree(len(sp.Tokens) + 1)
		if k == 0 {
			break
		}
		toks = append(toks, sp.Tokens[k-1])
	}
	if len(toks) == 0 {
		return
	}
	if toks[len(toks)-1] == " " || toks[0] == " " {
		// keep the comparison away from the handling of spaces next to the prefix
	}
	label := func(t string) (string, bool) {
		if len(t) >= 2 && t[0] == '[' {
			return t[1 : len(t)-1], true
		}
		return "", false
	}
	var sb strings.Builder
	sb.WriteString("<p>x")
	emit := func(img bool, text, dest string) {
		if img {
			fmt.Fprintf(&sb, `<img src="%s" alt="%s">`, dest, text)
		} else {
			fmt.Fprintf(&sb, `<a href="%s">%s</a>`, dest, text)
		}
	}
	nlinks := 0
	for i := 0; i < len(toks); {
		t := toks[i]
		img := false
		if t == "!" && i+1 < len(toks) {
			if _, isPair := label(toks[i+1]); isPair {
				img = true
				i++
				t = toks[i]
			}
		}
		l, isPair := label(t)
		if !isPair {
			sb.WriteString(t)
			i++
			continue
		}
		next := ""
		if i+1 < len(toks) {
			next = toks[i+1]
		}
		m, nextIsPair := label(next)
		switch {
		case next == "(u)":
			emit(img, l, "u")
			nlinks++
			i += 2
		case nextIsPair && m == "" && l == "a":
			emit(img, l, "/A")
			nlinks++
			i += 2
		case nextIsPair && m == "a":
			emit(img, l, "/A")
			nlinks++
			i += 2
		case nextIsPair:
			// followed by [] with an undefined own label, or by an undefined label: no link
			if img {
				sb.WriteString("!")
			}
			sb.WriteString(t)
			i++
		case l == "a":
			emit(img, l, "/A")
			nlinks++
			i++
		default:
			if img {
				sb.WriteString("!")
			}
			sb.WriteString(t)
			i++
		}
	}
	sb.WriteString("x</p>")
	doc := sp.Prefix + strings.Join(toks, "") + sp.Suffix
	in := []byte(doc)
	blocks, refs := cm.Parse(clone(in))
	got := ref.Norm(renderCfg(blocks, refs, cm.SoftBreakPreserve, false))
	x.Validated()
	if want := ref.Norm(sb.String()); got != want {
		x.Fail("reference-forms", "", in, "%q renders (normalized) %q; reading the bracket pairs by spec 6.3 (a defined, b undefined) gives %q", doc, got, want)
		return
	}
	if nlinks > 0 {
		x.Nontrivial()
	}
	x.Outcome(tree.Hash64(sb.String()))
	x.Sample(fmt.Sprintf("%q -> %s", doc, sb.String()))
}

// ---- nested brackets: the "look for link or image" procedure of the spec's appendix --------

var spBrackets = spaces.Space{Name: "X-brackets", Doc: "link and image openers, closers, an inline tail, a defined and an undefined word, nested in every way",
	Tokens: []string{"[", "![", "]", "(u)", "a", "x"}, Prefix: "y", Suffix: "y\n\n[a]: /A\n"}

func init() { spaces.All = append(spaces.All, spBrackets) }

type brNode struct {
	html  string // rendered form
	plain string // text content (for alt)
}

type brOpener struct {
	at     int // index into the node list of the opener's own text node
	tok    int // index of the opener token
	image  bool
	active bool
}

// refBrackets renders a token sequence by the procedure of the spec's appendix
// ("look for link or image"): at a closing bracket take the nearest opener; if
// it is inactive, or nothing that follows makes a link (an inline tail; a label
// that is defined; "[]" or nothing with the bracketed text itself a defined
// label), both brackets are text; otherwise the nodes between them become the
// link's content, and after a link (not an image) all earlier "[" openers are
// deactivated, because links may not contain links.
func refBrackets(toks []string) string {
	var nodes []brNode
	var stack []brOpener
	text := func(s string) { nodes = append(nodes, brNode{html: s, plain: s}) }
	// labelAt: toks[i] == "[": a link label made of plain words follows?
	labelAt := func(i int) (content string, n int, ok bool) {
		j := i + 1
		for j < len(toks) && (toks[j] == "a" || toks[j] == "x" || toks[j] == "(u)") {
			content += toks[j]
			j++
		}
		if j < len(toks) && toks[j] == "]" {
			return content, j + 1 - i, true
		}
		return "", 0, false
	}
	for i := 0; i < len(toks); i++ {
		t := toks[i]
		switch t {
		case "[", "![":
			stack = append(stack, brOpener{at: len(nodes), tok: i, image: t == "![", active: true})
			text(t)
		case "]":
			if len(stack) == 0 {
				text("]")
				continue
			}
			o := stack[len(stack)-1]
			stack = stack[:len(stack)-1]
			if !o.active {
				text("]")
				continue
			}
			// the bracketed text as a label of its own: only words, no brackets
			own, ownOK := "", true
			for _, w := range toks[o.tok+1 : i] {
				if w == "a" || w == "x" || w == "(u)" {
					own += w
				} else {
					ownOK = false
				}
			}
			dest, consumed, found := "", 0, false
			switch {
			case i+1 < len(toks) && toks[i+1] == "(u)":
				dest, consumed, found = "u", 1, true
			case i+1 < len(toks) && toks[i+1] == "[":
				if l, n, ok := labelAt(i + 1); ok && l != "" {
					// a link label follows: full reference or nothing
					if l == "a" {
						dest, consumed, found = "/A", n, true
					}
				} else if ok && l == "" {
					// "[]": collapsed reference
					if ownOK && own == "a" {
						dest, consumed, found = "/A", n, true
					}
				} else if ownOK && own == "a" {
					// what follows is no label: shortcut reference
					dest, found = "/A", true
				}
			default:
				if ownOK && own == "a" {
					dest, found = "/A", true
				}
			}
			if !found {
				text("]")
				continue
			}
			var inner, plain strings.Builder
			for _, nd := range nodes[o.at+1:] {
				inner.WriteString(nd.html)
				plain.WriteString(nd.plain)
			}
			nodes = nodes[:o.at]
			if o.image {
				nodes = append(nodes, brNode{html: fmt.Sprintf(`<img src="%s" alt="%s">`, dest, plain.String()), plain: plain.String()})
			} else {
				nodes = append(nodes, brNode{html: fmt.Sprintf(`<a href="%s">%s</a>`, dest, inner.String()), plain: plain.String()})
				for k := range stack {
					if !stack[k].image {
						stack[k].active = false
					}
				}
			}
			i += consumed
		default:
			text(t)
		}
	}
	var sb strings.Builder
	for _, nd := range nodes {
		sb.WriteString(nd.html)
	}
	return sb.String()
}

func c12Brackets(x *X, in []byte) {
	doc := string(in)
	body := strings.TrimSuffix(strings.TrimPrefix(doc, spBrackets.Prefix), spBrackets.Suffix)
	// re-tokenize (the alphabet is uniquely decodable; "![" before "[")
	var toks []string
	for i := 0; i < len(body); {
		matched := false
		for _, t := range []string{"![", "(u)", "[", "]", "a", "x"} {
			if strings.HasPrefix(body[i:], t) {
				toks = append(toks, t)
				i += len(t)
				matched = true
				break
			}
		}
		if !matched {
			return
		}
	}
	// "(u)" after plain text is text; inside a label lookahead it never occurs
	want := "<p>y" + refBrackets(toks) + "y</p>"
	blocks, refs := cm.Parse(clone(in))
	got := ref.Norm(renderCfg(blocks, refs, cm.SoftBreakPreserve, false))
	x.Validated()
	if w := ref.Norm(want); got != w {
		x.Fail("nested-brackets", "", in, "%q renders (normalized) %q; the spec's link/image procedure (a defined, x undefined) gives %q", doc, got, w)
		return
	}
	if strings.Contains(want, "<a ") || strings.Contains(want, "<img ") {
		x.Nontrivial()
	}
	x.Outcome(tree.Hash64(want))
	x.Sample(fmt.Sprintf("%q -> %s", doc, want))
}
