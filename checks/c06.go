package checks

import (
	"bytes"
	"fmt"
	"regexp"
	"sort"
	"strconv"
	"strings"

	"verif/ref"
	"verif/tree"

	cm "zombiezen.com/go/commonmark"
	"zombiezen.com/go/commonmark/format"
)

// ---------------------------------------------------------------------------
// C06: canonical documents render to exactly the HTML they denote.

// xChooser adapts an execution to ref.Chooser.
type xChooser struct{ x *X }

func (c xChooser) Free(n int) int { return c.x.ChooseFree(n) }
func (c xChooser) Dev(n int) int  { return c.x.Choose(n) }

// zeroChooser always takes the canonical spelling (and must not be asked for shape choices).
type zeroChooser struct{}

func (zeroChooser) Free(n int) int { return 0 }
func (zeroChooser) Dev(n int) int  { return 0 }

func word(s string) ref.Inl  { return ref.Inl{Kind: ref.IWord, Text: s} }
func punct(c string) ref.Inl { return ref.Inl{Kind: ref.IPunct, Text: c} }

var (
	inlSpace = ref.Inl{Kind: ref.ISpace}
	inlSoft  = ref.Inl{Kind: ref.ISoft}
	inlHard  = ref.Inl{Kind: ref.IHard}
)

// inlineMenu: the inline atoms of exploration (ii).
var inlineMenu = []ref.Inl{
	word("foo"),
	inlSpace,
	inlSoft,
	inlHard,
	punct("*"),
	punct("<"),
	punct("["),
	punct("!"),
	{Kind: ref.IEnt, Text: "&amp;"},
	{Kind: ref.IEnt, Text: "&#35;"},
	{Kind: ref.IEmph, Kids: []ref.Inl{word("bar")}},
	{Kind: ref.IStrong, Kids: []ref.Inl{word("bar")}},
	{Kind: ref.IEmph, Kids: []ref.Inl{word("bar"), inlSoft, word("Baz9")}},
	{Kind: ref.IStrong, Kids: []ref.Inl{word("bar"), inlSpace, {Kind: ref.IEmph, Kids: []ref.Inl{word("q")}}, inlSpace, word("z")}},
	{Kind: ref.ICode, Text: "a"},
	{Kind: ref.ICode, Text: "a\nb"},
	{Kind: ref.ICode, Text: "`"},
	{Kind: ref.ICode, Text: " a "},
	{Kind: ref.ILink, Kids: []ref.Inl{word("bar")}, Dest: "/u"},
	{Kind: ref.ILink, Kids: []ref.Inl{word("bar"), inlSoft, word("q")}, Dest: "/a(b)", Title: "t\nu", HasT: true},
	{Kind: ref.ILink, Kids: []ref.Inl{word("bar")}, Dest: "u v", Title: "t\"q", HasT: true},
	{Kind: ref.ILink, Kids: []ref.Inl{{Kind: ref.IEmph, Kids: []ref.Inl{word("bar")}}}, Dest: "", Title: "t'q", HasT: true},
	{Kind: ref.IRefFull, Kids: []ref.Inl{word("bar")}, Text: "R s"},
	{Kind: ref.IRefCollapsed, Text: "r"},
	{Kind: ref.IRefShortcut, Text: "r"},
	{Kind: ref.IImage, Kids: []ref.Inl{word("bar"), inlSpace, {Kind: ref.IEmph, Kids: []ref.Inl{word("q")}}}, Dest: "/q?x=1&y", Title: "t", HasT: true},
	{Kind: ref.IAuto, Text: "http://a.b/c"},
	{Kind: ref.IAuto, Text: "a@b.c"},
	{Kind: ref.IRaw, Text: "<b>"},
	{Kind: ref.IRaw, Text: "<b\nx=\"y\">"},
	{Kind: ref.IRaw, Text: "<!-- c -->"},
}

func refDefs() []*ref.Block {
	return []*ref.Block{
		{Kind: ref.BRefDef, Label: "r", Dest: "/r1", Title: "rt", HasT: true},
		{Kind: ref.BRefDef, Label: "r  S", Dest: "/r2"},
	}
}

// wrapContext puts a leaf block into one of the composition contexts.
var c06Contexts = []string{"top", "quote", "bullet-item", "ordered-item", "quote-in-item", "item-in-quote", "loose-item-second-block", "nested-list"}

func wrapContext(ctx int, leaf *ref.Block) []*ref.Block {
	p := func(s string) *ref.Block { return &ref.Block{Kind: ref.BPara, Inl: []ref.Inl{word(s)}} }
	switch ctx {
	case 0:
		return []*ref.Block{leaf}
	case 1:
		return []*ref.Block{{Kind: ref.BQuote, Kids: []*ref.Block{leaf}}}
	case 2:
		return []*ref.Block{{Kind: ref.BBullet, Tight: true, Items: [][]*ref.Block{{leaf}}}}
	case 3:
		return []*ref.Block{{Kind: ref.BOrdered, Start: 7, Tight: true, Items: [][]*ref.Block{{leaf}}}}
	case 4:
		return []*ref.Block{{Kind: ref.BBullet, Tight: true, Items: [][]*ref.Block{{{Kind: ref.BQuote, Kids: []*ref.Block{leaf}}}}}}
	case 5:
		return []*ref.Block{{Kind: ref.BQuote, Kids: []*ref.Block{{Kind: ref.BOrdered, Start: 1, Tight: true, Items: [][]*ref.Block{{leaf}}}}}}
	case 6:
		return []*ref.Block{{Kind: ref.BBullet, Tight: false, Items: [][]*ref.Block{{p("one"), leaf}, {p("two")}}}}
	default:
		return []*ref.Block{{Kind: ref.BBullet, Tight: true, Items: [][]*ref.Block{{p("one"), {Kind: ref.BBullet, Tight: true, Items: [][]*ref.Block{{leaf}}}}}}}
	}
}

// ---- skeleton generator (exploration i) ----------------------------------------

type skelGen struct {
	x      *X
	budget int
}

var skelLeafNames = []string{"para", "para2", "atx", "setext", "break", "fenced", "indented", "html", "refdef"}

func (g *skelGen) leaf(k int) *ref.Block {
	x := g.x
	switch k {
	case 0:
		return &ref.Block{Kind: ref.BPara, Inl: []ref.Inl{word("foo")}}
	case 1:
		return &ref.Block{Kind: ref.BPara, Inl: []ref.Inl{word("foo"), inlSoft, word("bar")}}
	case 2:
		return &ref.Block{Kind: ref.BATX, Level: []int{1, 6}[x.ChooseFree(2)], Inl: []ref.Inl{word("foo")}}
	case 3:
		return &ref.Block{Kind: ref.BSetext, Level: 1 + x.ChooseFree(2), Inl: []ref.Inl{word("foo")}}
	case 4:
		return &ref.Block{Kind: ref.BBreak}
	case 5:
		pre := x.ChooseFree(4)
		return &ref.Block{Kind: ref.BFenced, Info: []string{"", "go", "go x", ""}[pre], Lines: [][]string{{"a"}, {"a", "", "  b"}, {"> q", "- l"}, {"```", "~~~", "<b>&amp;"}}[pre]}
	case 6:
		return &ref.Block{Kind: ref.BIndented, Lines: [][]string{{"a"}, {"a", "", "  b &"}}[x.ChooseFree(2)]}
	case 7:
		return &ref.Block{Kind: ref.BHTML, Lines: [][]string{{"<div>", "*foo*", "</div>"}, {"<!-- c", "-->"}, {"<custom-tag>", "bar"}}[x.ChooseFree(3)]}
	default:
		return &ref.Block{Kind: ref.BRefDef, Label: "zz", Dest: "/z", Title: "t", HasT: x.ChooseFree(2) == 1}
	}
}

// siblings generates a list of sibling blocks; depth limits container nesting.
func (g *skelGen) siblings(maxSiblings, depth int, inTightItem bool) []*ref.Block {
	var out []*ref.Block
	nLeaf := len(skelLeafNames)
	for len(out) < maxSiblings && g.budget > 0 {
		n := nLeaf + 1
		if depth > 0 {
			n += 3 // quote, bullet list, ordered list
		}
		k := g.x.ChooseFree(n)
		if k == 0 {
			break
		}
		k--
		g.budget--
		if k < nLeaf {
			out = append(out, g.leaf(k))
			continue
		}
		switch k - nLeaf {
		case 0:
			out = append(out, &ref.Block{Kind: ref.BQuote, Kids: g.siblings(2, depth-1, false)})
		default:
			b := &ref.Block{Kind: ref.BBullet, Start: 1}
			if k-nLeaf == 2 {
				b.Kind = ref.BOrdered
				b.Start = []int{1, 7}[g.x.ChooseFree(2)]
			}
			b.Tight = g.x.ChooseFree(2) == 0
			nItems := 1 + g.x.ChooseFree(2)
			for i := 0; i < nItems; i++ {
				if b.Tight {
					// a tight item: one block, or a paragraph directly followed by a tight sub-list
					it := g.siblings(1, depth-1, true)
					if len(it) == 1 && it[0].Kind == ref.BPara && depth-1 > 0 && g.budget > 0 && g.x.ChooseFree(2) == 1 {
						g.budget--
						sub := &ref.Block{Kind: ref.BBullet, Tight: true, Start: 1, Items: [][]*ref.Block{{{Kind: ref.BPara, Inl: []ref.Inl{word("sub")}}}}}
						if g.x.ChooseFree(2) == 1 {
							sub.Kind = ref.BOrdered
						}
						it = append(it, sub)
					}
					b.Items = append(b.Items, it)
				} else {
					b.Items = append(b.Items, g.siblings(2, depth-1, false))
				}
			}
			out = append(out, b)
		}
	}
	return out
}

// validSkeleton rejects shapes the model cannot spell faithfully.
func validSkeleton(bs []*ref.Block) string {
	for _, b := range bs {
		switch b.Kind {
		case ref.BQuote:
			if r := validSkeleton(b.Kids); r != "" {
				return r
			}
		case ref.BBullet, ref.BOrdered:
			multi := len(b.Items) >= 2
			for _, it := range b.Items {
				if len(it) == 0 {
					return "empty list item"
				}
				if it[0].Kind == ref.BIndented {
					return "item starting with indented code"
				}
				if it[0].Kind == ref.BRefDef || it[0].Kind == ref.BHTML && false {
					// fine
				}
				if len(it) >= 2 {
					multi = true
				}
				if b.Tight {
					for _, blk := range it {
						if blk.Kind == ref.BFenced || blk.Kind == ref.BIndented {
							for _, l := range blk.Lines {
								if l == "" {
									return "blank line inside a tight item"
								}
							}
						}
					}
				}
				if r := validSkeleton(it); r != "" {
					return r
				}
			}
			if !b.Tight && !multi {
				return "a one-item one-block list cannot be loose"
			}
		}
	}
	return ""
}

func countBlocks(bs []*ref.Block, counts map[string]int) {
	for _, b := range bs {
		counts[[]string{"para", "atx", "setext", "break", "fenced", "indented", "quote", "bullet", "ordered", "html", "refdef"}[b.Kind]]++
		countBlocks(b.Kids, counts)
		for _, it := range b.Items {
			countBlocks(it, counts)
		}
	}
}

// ---- list shapes (exploration vi) ------------------------------------------------------

func listShape(x *X, depth int, budget *int, top bool) *ref.Block {
	p := func(s string) *ref.Block { return &ref.Block{Kind: ref.BPara, Inl: []ref.Inl{word(s)}} }
	b := &ref.Block{Kind: ref.BBullet, Start: 1}
	if x.ChooseFree(2) == 1 {
		b.Kind = ref.BOrdered
		if top && x.ChooseFree(2) == 1 {
			b.Start = 7
		}
	}
	b.Tight = x.ChooseFree(2) == 0
	n := 1 + x.ChooseFree(2)
	for i := 0; i < n; i++ {
		*budget -= 2
		if *budget < 0 {
			return nil
		}
		it := []*ref.Block{p([]string{"one", "two"}[i])}
		// The item's first block may be one whose line the block parser consumes
		// whole (an ATX heading, a thematic break) instead of a paragraph:
		// whatever "the previous line was blank" state a paragraph line resets
		// must be reset by those lines too.
		kind := 0
		if i == n-1 && !top {
			kind = x.ChooseFree(3) // only for the last item of each nested list: keeps the space near 10^6
		}
		switch kind {
		case 1:
			it[0] = &ref.Block{Kind: ref.BATX, Level: 1, Inl: []ref.Inl{word([]string{"one", "two"}[i])}}
		case 2:
			it[0] = &ref.Block{Kind: ref.BBreak}
		}
		if depth > 0 && x.ChooseFree(2) == 1 {
			sub := listShape(x, depth-1, budget, false)
			if sub == nil {
				return nil
			}
			it = append(it, sub)
		}
		if !b.Tight && x.ChooseFree(2) == 1 {
			*budget--
			tail := p("tail")
			if !top && i == n-1 && x.ChooseFree(2) == 1 {
				// the last block of the last item of a nested loose list may be an
				// empty fenced code block (two lines that the block parser consumes whole)
				tail = &ref.Block{Kind: ref.BFenced}
			}
			it = append(it, tail)
		}
		b.Items = append(b.Items, it)
	}
	return b
}

// ---- escaped link attributes (exploration vii) ------------------------------------------

func escAllPunct(s string) string {
	var sb strings.Builder
	for i := 0; i < len(s); i++ {
		if strings.IndexByte("!\"#$%&'()*+,-./:;<=>?@[\\]^_`{|}~", s[i]) >= 0 {
			sb.WriteByte('\\')
		}
		sb.WriteByte(s[i])
	}
	return sb.String()
}

// c06Attr: lit as title (quote style q) or destination of a link / image / definition.
func c06Attr(x *X, lit string, q, where int) {
	esc := escAllPunct(lit)
	open, closeq := []string{"\"", "'", "("}[q], []string{"\"", "'", ")"}[q]
	title := open + esc + closeq
	dest := esc
	if strings.Contains(lit, " ") {
		dest = "<" + esc + ">"
	}
	if strings.TrimSpace(lit) != lit && where < 3 {
		// a title may begin or end with a space; keep it, it is literal
		_ = lit
	}
	var src string
	var doc []*ref.Block
	p := func(in ...ref.Inl) []*ref.Block { return []*ref.Block{{Kind: ref.BPara, Inl: in}} }
	switch where {
	case 0:
		src = "[a](/u " + title + ")\n"
		doc = p(ref.Inl{Kind: ref.ILink, Kids: []ref.Inl{word("a")}, Dest: "/u", Title: lit, HasT: true})
	case 1:
		src = "![a](/u " + title + ")\n"
		doc = p(ref.Inl{Kind: ref.IImage, Kids: []ref.Inl{word("a")}, Dest: "/u", Title: lit, HasT: true})
	case 2:
		src = "[a]\n\n[a]: /u " + title + "\n"
		doc = append(p(ref.Inl{Kind: ref.IRefShortcut, Text: "a"}), &ref.Block{Kind: ref.BRefDef, Label: "a", Dest: "/u", Title: lit, HasT: true})
	case 3:
		src = "[a](" + dest + ")\n"
		doc = p(ref.Inl{Kind: ref.ILink, Kids: []ref.Inl{word("a")}, Dest: lit})
	case 4:
		src = "![a](" + dest + " \"t\")\n"
		doc = p(ref.Inl{Kind: ref.IImage, Kids: []ref.Inl{word("a")}, Dest: lit, Title: "t", HasT: true})
	default:
		src = "[a]\n\n[a]: " + dest + "\n"
		doc = append(p(ref.Inl{Kind: ref.IRefShortcut, Text: "a"}), &ref.Block{Kind: ref.BRefDef, Label: "a", Dest: lit})
	}
	in := []byte(src)
	want := ref.Norm(ref.Denote(doc))
	blocks, refs := cm.Parse(clone(in))
	got := ref.Norm(renderCfg(blocks, refs, cm.SoftBreakPreserve, false))
	x.Validated()
	if got != want {
		x.Fail("html-differs-from-denotation", "escaped-attribute", in, "document %q renders (normalized) %q; with every punctuation character escaped the attribute is the literal text %q, so the denotation is %q", src, got, lit, want)
		return
	}
	x.Nontrivial()
	x.Outcome(tree.Hash64(want))
	x.Sample(q2(in))
}

func q2(in []byte) string { return q(in) }

// ---- numeric character references (exploration viii) --------------------------------------

func c06NumRef(x *X) {
	hex := x.ChooseFree(2) == 1
	maxDigits, limit := 8, 7
	vals := []string{"35", "228", "1114111"}
	prefix := "&#"
	if hex {
		maxDigits, limit = 7, 6
		vals = []string{"23", "E4", "e4", "10FFFF", "10ffff"}
		prefix = []string{"&#x", "&#X"}[x.ChooseFree(2)]
	}
	v := vals[x.ChooseFree(len(vals))]
	k := 1 + x.ChooseFree(maxDigits)
	if k < len(v) {
		return
	}
	r := prefix + strings.Repeat("0", k-len(v)) + v + ";"
	isRef := k <= limit
	lit := r
	if !isRef {
		lit = "&amp;" + r[1:]
	}
	var src, want string
	switch x.ChooseFree(3) {
	case 0:
		src = "a " + r + " b\n"
		want = "<p>a " + lit + " b</p>"
	case 1:
		// attribute text is decoded (the three values need no escaping)
		src = "[a](/u \"" + r + "\")\n"
		dec := lit
		if isRef {
			base := 10
			if hex {
				base = 16
			}
			cp, _ := strconv.ParseInt(v, base, 32)
			dec = string(rune(cp))
		}
		want = "<p><a href=\"/u\" title=\"" + dec + "\">a</a></p>"
	default:
		// info string: the first word becomes the class; a reference is decoded
		// there, so only compare the recognised / literal distinction through text.
		src = "x" + r + "y\n"
		want = "<p>x" + lit + "y</p>"
	}
	in := []byte(src)
	blocks, refs := cm.Parse(clone(in))
	got := ref.Norm(renderCfg(blocks, refs, cm.SoftBreakPreserve, false))
	x.Validated()
	if got != ref.Norm(want) {
		x.Fail("html-differs-from-denotation", "numeric-reference", in, "document %q renders (normalized) %q; %q has %d digits (limit %d), so the denotation is %q", src, got, r, k, limit, want)
		return
	}
	x.Nontrivial()
	x.Outcome(tree.Hash64(want))
	x.Sample(q(in))
}

// ---- deep nesting (exploration v) -----------------------------------------------------

func deepNesting(x *X, maxDepth int) []*ref.Block {
	p := func(s string) *ref.Block { return &ref.Block{Kind: ref.BPara, Inl: []ref.Inl{word(s)}} }
	var kinds []int
	for len(kinds) < maxDepth {
		k := x.ChooseFree(6)
		if k == 0 {
			break
		}
		kinds = append(kinds, k)
	}
	if len(kinds) == 0 {
		return nil
	}
	leaves := []*ref.Block{
		p("foo"),
		{Kind: ref.BPara, Inl: []ref.Inl{word("foo"), inlSoft, word("bar")}},
		{Kind: ref.BFenced, Info: "go", Lines: []string{"a", "", "  b"}},
		{Kind: ref.BIndented, Lines: []string{"a", "  b"}},
		{Kind: ref.BATX, Level: 2, Inl: []ref.Inl{word("foo")}},
		{Kind: ref.BSetext, Level: 2, Inl: []ref.Inl{word("foo")}},
		{Kind: ref.BHTML, Lines: []string{"<div>", "*foo*", "</div>"}},
	}
	cur := []*ref.Block{leaves[x.ChooseFree(len(leaves))]}
	for i := len(kinds) - 1; i >= 0; i-- {
		switch kinds[i] {
		case 1:
			cur = []*ref.Block{{Kind: ref.BQuote, Kids: cur}}
		case 2:
			cur = []*ref.Block{{Kind: ref.BBullet, Tight: true, Start: 1, Items: [][]*ref.Block{cur}}}
		case 3:
			cur = []*ref.Block{{Kind: ref.BBullet, Tight: false, Start: 1, Items: [][]*ref.Block{append(cur, p("two"))}}}
		case 4:
			cur = []*ref.Block{{Kind: ref.BOrdered, Tight: true, Start: 10, Items: [][]*ref.Block{cur}}}
		case 5:
			cur = []*ref.Block{{Kind: ref.BBullet, Tight: true, Start: 1, Items: [][]*ref.Block{{p("one")}, cur}}}
		}
	}
	return cur
}

func nestingDepth(bs []*ref.Block) int {
	d := 0
	for _, b := range bs {
		switch b.Kind {
		case ref.BQuote:
			d = max(d, 1+nestingDepth(b.Kids))
		case ref.BBullet, ref.BOrdered:
			for _, it := range b.Items {
				d = max(d, 1+nestingDepth(it))
			}
		}
	}
	return d
}

// ---- code block contents (exploration iv) ---------------------------------------------

// codeLineMenu: content lines that matter to fence selection and to verbatim
// copying: fence-like lines of both characters, shorter and longer than the
// default fence, with trailing spaces (still a closing fence), with leading
// indentation (0-3 columns still close a fence, 4 do not), with an info-like
// tail (cannot close), container markers, tabs, blank lines.
var codeLineMenu = []string{"a", "", "  ", "```", "``` ", "````", "~~~", "~~~  ", " ```", "   ```", "   ~~~~", "    ```", "```a", "> a", "- b", "\ta", "  b  ", "<b>&amp;*c*"}

func codeContentLeaf(x *X, maxLines int) *ref.Block {
	b := &ref.Block{Kind: ref.BFenced}
	switch x.ChooseFree(5) {
	case 1:
		b.Info = "go"
	case 2:
		b.Kind = ref.BIndented
	case 3:
		b.Info = "`a" // an info string with a backtick needs a tilde fence
	case 4:
		b.Info = "go`x"
	}
	for i := 0; i < maxLines; i++ {
		k := x.ChooseFree(len(codeLineMenu) + 1)
		if k == 0 {
			break
		}
		b.Lines = append(b.Lines, codeLineMenu[k-1])
	}
	if b.Kind == ref.BIndented {
		// An indented code block begins and ends with a non-blank line.
		if len(b.Lines) == 0 || strings.TrimSpace(b.Lines[0]) == "" || strings.TrimSpace(b.Lines[len(b.Lines)-1]) == "" {
			return nil
		}
	}
	return b
}

// ---- the comparison ---------------------------------------------------------------

func c06Compare(x *X, doc []*ref.Block, label string) {
	ser := &ref.Serializer{C: xChooser{x}}
	src := ser.Serialize(doc)
	if ser.Reject != "" {
		x.Count("rejected: " + ser.Reject)
		return
	}
	in := []byte(src)
	want := ref.Norm(ref.Denote(doc))
	blocks, refs := cm.Parse(clone(in))
	out := renderCfg(blocks, refs, cm.SoftBreakPreserve, false)
	if ser.CRLF {
		out = strings.ReplaceAll(out, "\r\n", "\n")
	}
	got := ref.Norm(out)
	x.Validated()
	if got != want {
		x.Fail("html-differs-from-denotation", label, in, "document\n%s\nrenders (normalized) %q\nits denotation is %q", src, got, want)
		return
	}
	counts := map[string]int{}
	countBlocks(doc, counts)
	for k := range counts {
		x.Count("docs_with_" + k)
	}
	if ser.UsedTab {
		x.Count("docs_with_tab")
	}
	if ser.UsedLazy {
		x.Count("docs_with_lazy_continuation_line")
	}
	if ser.CRLF {
		x.Count("docs_crlf")
	}
	if ser.MultiLineTitle {
		x.Count("docs_multi_line_title")
	}
	if len(x.Choices()) > 0 {
		x.Nontrivial()
	}
	x.Outcome(tree.Hash64(want))
	x.Sample(label + ": " + q(in))
}

func init() {
	register(&Check{
		ID:   "C06",
		Rule: "(i) every block skeleton with <= 4 block nodes and container depth <= 2 (paragraphs, ATX/setext headings, breaks, fenced/indented code, HTML blocks, reference definitions, quotes, tight/loose bullet and ordered lists) x every combination of serializer spelling deviations within the deviation bound; (ii) every sequence of <= n inline atoms from a 31-atom menu inside a paragraph (and a heading) placed in each of 8 composition contexts x spelling deviations; (iv) fenced and indented code blocks with every sequence of content lines from a menu of fence-like, indented, blank and marker-like lines in each context; (v) every chain of nested containers up to depth 5 (thorough 6) around each leaf block; (iii) every text of <= 3 characters over {a, space, all 32 ASCII punctuation characters} with every punctuation character escaped (deviation: minimal escaping), in each context; documents the serializer's guard cannot prove unambiguous are skipped and counted under reach_counters['rejected: <reason>']; non-trivial = the document was accepted and compared (distinct by construction: one execution per (document, spelling))",
		Assumptions: []string{
			"denotation in the renderer's output conventions (calibration log in DESIGN.md); comparison through ref.Norm; CRLF documents compared after mapping CRLF to LF in the output",
			"the serializer only emits spellings whose meaning the spec text fixes; its guard re-reads every line with the reference recognisers and rejects rather than guesses",
		},
		SelfTest: func() error {
			if _, err := ref.RawHTMLSelfTest(); err != nil {
				return err
			}
			if _, err := ref.HTMLBlockSelfTest(); err != nil {
				return err
			}
			if _, err := ref.LinkGrammarSelfTest(); err != nil {
				return err
			}
			return admSelfTest()
		},
		Run: func(c *Ctx) {
			dev := c.Pick(1, 2)
			c.Explore("skeletons", fmt.Sprintf("block skeletons with <=4 nodes, <=3 top-level blocks, container depth <=2, x spelling deviations <=%d", dev), dev, 4, func(x *X) {
				g := &skelGen{x: x, budget: 4}
				doc := g.siblings(3, 2, false)
				if len(doc) == 0 {
					return
				}
				if r := validSkeleton(doc); r != "" {
					x.Count("skeleton_invalid: " + r)
					return
				}
				c06Compare(x, doc, "skeleton")
			})
			n := c.Pick(3, 4)
			c.Explore("inlines", fmt.Sprintf("inline sequences of <=%d atoms from a %d-atom menu in a paragraph, in %d contexts, x spelling deviations <=%d", n, len(inlineMenu), len(c06Contexts), dev), dev, n, func(x *X) {
				var seq []ref.Inl
				for i := 0; i < n; i++ {
					k := x.ChooseFree(len(inlineMenu) + 1)
					if k == 0 {
						break
					}
					seq = append(seq, inlineMenu[k-1])
				}
				if len(seq) == 0 {
					return
				}
				ctx := x.ChooseFree(len(c06Contexts))
				leaf := &ref.Block{Kind: ref.BPara, Inl: seq}
				if x.ChooseFree(2) == 1 {
					leaf = &ref.Block{Kind: ref.BSetext, Level: 2, Inl: seq}
				}
				doc := append(wrapContext(ctx, leaf), refDefs()...)
				c06Compare(x, doc, c06Contexts[ctx])
			})
			c.Explore("escaped-texts", "texts of <=3 characters over {a, space, 32 ASCII punctuation characters} in a paragraph and in an ATX heading, in each context", 1, 3, func(x *X) {
				const chars = "a !\"#$%&'()*+,-./:;<=>?@[\\]^_`{|}~"
				var seq []ref.Inl
				for i := 0; i < 3; i++ {
					k := x.ChooseFree(len(chars) + 1)
					if k == 0 {
						break
					}
					switch c := chars[k-1]; c {
					case 'a':
						seq = append(seq, word("a"))
					case ' ':
						seq = append(seq, inlSpace)
					default:
						seq = append(seq, punct(string(c)))
					}
				}
				if len(seq) == 0 {
					return
				}
				ctx := x.ChooseFree(len(c06Contexts))
				leaf := &ref.Block{Kind: ref.BPara, Inl: seq}
				if x.ChooseFree(2) == 1 {
					leaf = &ref.Block{Kind: ref.BATX, Level: 2, Inl: seq}
				}
				c06Compare(x, wrapContext(ctx, leaf), c06Contexts[ctx])
			})
			ld := c.Pick(2, 2)
			c.Explore("list-shapes", fmt.Sprintf("every tree of nested lists up to %d levels below the top list: bullet/ordered x tight/loose x 1-2 items, each item a paragraph, optionally a sub-list, optionally (loose) a trailing paragraph; optionally a paragraph after the list; x spelling deviations <=%d", ld, dev), dev, 0, func(x *X) {
				budget := 9
				l := listShape(x, ld, &budget, true)
				if l == nil {
					return
				}
				doc := []*ref.Block{l}
				if x.ChooseFree(2) == 1 {
					doc = append(doc, &ref.Block{Kind: ref.BPara, Inl: []ref.Inl{word("after")}})
				}
				if r := validSkeleton(doc); r != "" {
					x.Count("skeleton_invalid: " + r)
					return
				}
				c06Compare(x, doc, "list-shapes")
			})
			c.Explore("escaped-link-attributes", "every text of <=3 characters over {a, space, 32 ASCII punctuation characters} with every punctuation character backslash-escaped, as title (3 quote styles) and as destination (bare / in angle brackets) of an inline link, an image and a reference definition", -1, 3, func(x *X) {
				const chars = "a !\"#$%&'()*+,-./:;<=>?@[\\]^_`{|}~"
				var lit []byte
				for i := 0; i < 3; i++ {
					k := x.ChooseFree(len(chars) + 1)
					if k == 0 {
						break
					}
					lit = append(lit, chars[k-1])
				}
				if len(lit) == 0 {
					return
				}
				c06Attr(x, string(lit), x.ChooseFree(3), x.ChooseFree(6))
			})
			c.Explore("numeric-references", "decimal references with 1..8 digits and hexadecimal references with 1..7 digits (values # / a-umlaut / U+10FFFF, zero-padded, both letter cases), in paragraph text, in a link title and in a code fence info string: up to 7 decimal / 6 hexadecimal digits are a character reference, longer ones are literal text", -1, 0, func(x *X) {
				c06NumRef(x)
			})
			depth := c.Pick(5, 6)
			c.Explore("deep-nesting", fmt.Sprintf("every chain of <=%d nested containers from {block quote, tight bullet item, loose bullet item with a second paragraph, ordered item, second item of a tight list} around each of 7 leaf blocks, x spelling deviations <=%d", depth, dev), dev, depth, func(x *X) {
				doc := deepNesting(x, depth)
				if doc == nil {
					return
				}
				if r := validSkeleton(doc); r != "" {
					x.Count("skeleton_invalid: " + r)
					return
				}
				x.Count(fmt.Sprintf("nesting_depth_%d", nestingDepth(doc)))
				c06Compare(x, doc, "deep-nesting")
			})
			hl := c.Pick(4, 5)
			c.Explore("html-block-lines", fmt.Sprintf("every document of <=%d lines from a %d-line menu (lines satisfying each of the seven HTML block start conditions, their end markers, near misses, text, blank), with LF, CRLF and CR line endings, against the start/end conditions of spec 4.6", hl, len(htmlLineMenu)), -1, hl, func(x *X) {
				var lines []string
				for i := 0; i < hl; i++ {
					k := x.ChooseFree(len(htmlLineMenu) + 1)
					if k == 0 {
						break
					}
					lines = append(lines, htmlLineMenu[k-1])
				}
				if len(lines) == 0 {
					return
				}
				c06HTMLBlockDriver(x, lines)
			})
			c.Explore("html-block-names", fmt.Sprintf("each of the %d element names of start condition 6 and of the 4 names of condition 1, in lower and upper case, as opening and closing tag with each admissible terminator, followed by a line that reads as emphasis outside an HTML block", len(ref.HTMLBlockNames6)), -1, 0, func(x *X) {
				names := append(append([]string{}, ref.HTMLBlockNames6...), "pre", "script", "style", "textarea", "span", "a", "em", "custom", "divv", "h7", "tablee")
				name := names[x.ChooseFree(len(names))]
				if x.ChooseFree(2) == 1 {
					name = strings.ToUpper(name)
				}
				open := []string{"<", "</"}[x.ChooseFree(2)]
				term := []string{">", "", " ", "\t", "/>", " x>", "x"}[x.ChooseFree(7)]
				c06HTMLBlockDriver(x, []string{open + name + term, "y", "", "z"})
			})
			c.Explore("empty-item-start", "a list marker alone on its line (8 marker spellings), optionally one blank line (6 spellings: empty, 1-3 and 6 spaces, a tab), then a text line indented 0-8 columns; at top level and in a block quote; LF, CRLF and CR", -1, 0, c06EmptyItemStart)
			var entNames []string
			for n := range ref.EntityNames {
				entNames = append(entNames, n)
			}
			sort.Strings(entNames)
			c.Explore("all-entities", fmt.Sprintf("each of the %d HTML5 named character references, and each name with one more letter appended, in running text, in a link title, in a heading and (values without white space) in an info string", len(entNames)), -1, 0, func(x *X) { c06AllEntities(x, entNames) })
			c.Explore("sibling-leaves", "every pair of one-line paragraphs (X of <=2, Y of <=3 tokens over the X-leaf alphabet) as two items of a tight list, two paragraphs of a block quote and two paragraphs of a loose list item, each compared with the paragraph rendered as a document of its own", -1, 5, c06SiblingLeaves)
			c.Inputs(spBreaks, c.Pick(7, 8), c06BreaksDriver)
			c.Inputs(spCodeSpan, c.Pick(8, 9), c06CodeSpanDriver)
			c.Inputs(spLinkTail, c.Pick(6, 7), c06LinkTailDriver)
			c.Inputs(spRawTag, c.Pick(5, 6), c06RawDriver)
			c.Inputs(spRawAttr, c.Pick(6, 7), c06RawDriver)
			c.Inputs(spRawDecl, c.Pick(5, 6), c06RawDriver)
			nl := c.Pick(3, 4)
			c.Explore("code-content", fmt.Sprintf("fenced (with/without info string) and indented code blocks with every sequence of <=%d content lines from a %d-line menu of fence-like, indented, blank and marker-like lines, in each context, x spelling deviations <=%d (fence character, fence length, longer closing fence)", nl, len(codeLineMenu), dev), dev, nl, func(x *X) {
				leaf := codeContentLeaf(x, nl)
				if leaf == nil {
					return
				}
				ctx := x.ChooseFree(len(c06Contexts))
				doc := wrapContext(ctx, leaf)
				if r := validSkeleton(doc); r != "" {
					x.Count("skeleton_invalid: " + r)
					return
				}
				c06Compare(x, doc, c06Contexts[ctx])
			})
		},
	})
	c20Second = c20SecondImpl
}

// admSelfTest: every generated document (canonical spelling) whose serialization
// coincides byte for byte with the Markdown of a spec example must denote that
// example's HTML. No parser is involved.
func admSelfTest() error {
	byMD := map[string]ref.SpecExample{}
	for _, e := range ref.SpecExamples() {
		byMD[e.Markdown] = e
	}
	hits := 0
	check := func(doc []*ref.Block) error {
		ser := &ref.Serializer{C: zeroChooser{}}
		src := ser.Serialize(doc)
		if ser.Reject != "" {
			return nil
		}
		if e, ok := byMD[src]; ok {
			hits++
			if got, want := ref.Norm(ref.Denote(doc)), ref.Norm(normSpecHTML(e.HTML)); got != want {
				return fmt.Errorf("abstract document serializes to spec example %d (%q) but denotes %q, the spec says %q", e.Example, src, got, want)
			}
		}
		return nil
	}
	// Hand-built documents that coincide with spec examples (canonical spelling).
	p := func(in ...ref.Inl) *ref.Block { return &ref.Block{Kind: ref.BPara, Inl: in} }
	docs := [][]*ref.Block{
		{p(word("aaa")), p(word("bbb"))},                  // 219
		{{Kind: ref.BBreak}},                              // ***
		{{Kind: ref.BFenced, Lines: []string{"<", " >"}}}, // 119
		{{Kind: ref.BQuote, Kids: []*ref.Block{{Kind: ref.BATX, Level: 1, Inl: []ref.Inl{word("Foo")}}, p(word("bar"), inlSoft, word("baz"))}}}, // 228 differs in spelling (no blank line) - no hit expected
		{{Kind: ref.BBullet, Tight: true, Items: [][]*ref.Block{{p(word("foo"))}, {p(word("bar"))}}}},                                           // 301-ish
		{p(ref.Inl{Kind: ref.IEmph, Kids: []ref.Inl{word("foo"), inlSpace, word("bar")}})},                                                      // 350
		{p(ref.Inl{Kind: ref.IStrong, Kids: []ref.Inl{word("foo"), inlSpace, word("bar")}})},                                                    // 378
		{p(ref.Inl{Kind: ref.ICode, Text: "foo"})},                                                                                              // 328
		{p(ref.Inl{Kind: ref.ILink, Kids: []ref.Inl{word("link")}, Dest: "/uri", Title: "title", HasT: true})},                                  // 481
		{p(ref.Inl{Kind: ref.ILink, Kids: []ref.Inl{word("link")}, Dest: "/uri"})},                                                              // 482
		{p(ref.Inl{Kind: ref.ILink, Kids: []ref.Inl{word("link")}, Dest: ""})},                                                                  // 484 [link]()
		{p(ref.Inl{Kind: ref.IAuto, Text: "http://foo.bar.baz"})},                                                                               // 593
		{p(ref.Inl{Kind: ref.IAuto, Text: "foo@bar.example.com"})},                                                                              // 603
		{p(word("foo"), inlHard, word("baz"))},                                                                                                  // 634 (backslash form)
		{p(word("foo"), inlSoft, word("baz"))},                                                                                                  // 648
		{{Kind: ref.BATX, Level: 1, Inl: []ref.Inl{word("foo")}}},
		{{Kind: ref.BSetext, Level: 1, Inl: []ref.Inl{word("Foo")}}},
		{{Kind: ref.BIndented, Lines: []string{"a simple", "  indented code block"}}}, // 107
		{{Kind: ref.BOrdered, Start: 1, Tight: true, Items: [][]*ref.Block{{p(word("foo"))}, {p(word("bar"))}}}},
		{{Kind: ref.BQuote, Kids: []*ref.Block{p(word("bar"))}}},
		{p(ref.Inl{Kind: ref.IImage, Kids: []ref.Inl{word("foo")}, Dest: "/url", Title: "title", HasT: true})}, // 571
		{p(ref.Inl{Kind: ref.IEnt, Text: "&copy;"})},
	}
	for _, d := range docs {
		if err := check(d); err != nil {
			return err
		}
	}
	if hits < 8 {
		return fmt.Errorf("abstract-document self-test: only %d hand-built documents coincide with spec examples (expected >= 8); the canonical spelling drifted", hits)
	}
	return nil
}

var reImgAttrs = regexp.MustCompile(`(<img src="[^"]*") (alt="[^"]*") (title="[^"]*")`)

// normSpecHTML rewrites the spec's HTML spellings into the renderer's
// (self-closing void tags; &quot; in attributes).
func normSpecHTML(h string) string {
	h = strings.ReplaceAll(h, "<br />", "<br>")
	h = strings.ReplaceAll(h, "<hr />", "<hr>")
	h = strings.ReplaceAll(h, " />", ">")
	// attribute order of <img> is not significant; the renderer writes src, title, alt
	h = reImgAttrs.ReplaceAllString(h, "$1 $3 $2")
	return h
}

// ---- C20, second clause -------------------------------------------------------------

func c20SecondImpl(c *Ctx) {
	c.Explore("canonical-skeletons", "S_fmt block skeletons (<=4 nodes) in the serializer's canonical spelling: format, re-parse, compare HTML, re-format", 0, 4, func(x *X) {
		g := &skelGen{x: x, budget: 4}
		doc := g.siblings(3, 2, false)
		if len(doc) == 0 {
			return
		}
		if r := validSkeleton(doc); r != "" {
			return
		}
		c20Roundtrip(x, doc, "skeleton")
	})
	n := c.Pick(3, 4)
	c.Explore("canonical-inlines", fmt.Sprintf("S_fmt inline sequences of <=%d atoms in 8 contexts, canonical spelling", n), 0, n, func(x *X) {
		var seq []ref.Inl
		for i := 0; i < n; i++ {
			k := x.ChooseFree(len(inlineMenu) + 1)
			if k == 0 {
				break
			}
			seq = append(seq, inlineMenu[k-1])
		}
		if len(seq) == 0 {
			return
		}
		ctx := x.ChooseFree(len(c06Contexts))
		doc := append(wrapContext(ctx, &ref.Block{Kind: ref.BPara, Inl: seq}), refDefs()...)
		c20Roundtrip(x, doc, c06Contexts[ctx])
	})
	c.Explore("canonical-escaped-texts", "texts of <=3 characters over {a, space, 32 ASCII punctuation characters} (S_fmt keeps those whose punctuation the formatter handles) in a paragraph and in an ATX heading, in each of the 8 contexts, canonical spelling", 0, 3, func(x *X) {
		const chars = "a !\"#$%&'()*+,-./:;<=>?@[\\]^_`{|}~"
		var seq []ref.Inl
		for i := 0; i < 3; i++ {
			k := x.ChooseFree(len(chars) + 1)
			if k == 0 {
				break
			}
			switch c := chars[k-1]; c {
			case 'a':
				seq = append(seq, word("a"))
			case ' ':
				seq = append(seq, inlSpace)
			default:
				seq = append(seq, punct(string(c)))
			}
		}
		if len(seq) == 0 {
			return
		}
		ctx := x.ChooseFree(len(c06Contexts))
		leaf := &ref.Block{Kind: ref.BPara, Inl: seq}
		if x.ChooseFree(2) == 1 {
			leaf = &ref.Block{Kind: ref.BATX, Level: 2, Inl: seq}
		}
		c20Roundtrip(x, wrapContext(ctx, leaf), c06Contexts[ctx])
	})
	c.Explore("canonical-list-shapes", "S_fmt trees of nested lists (bullet/ordered x tight/loose x 1-2 items, sub-lists, trailing paragraphs) in the canonical spelling", 0, 0, func(x *X) {
		budget := 9
		l := listShape(x, 2, &budget, true)
		if l == nil {
			return
		}
		doc := []*ref.Block{l}
		if x.ChooseFree(2) == 1 {
			doc = append(doc, &ref.Block{Kind: ref.BPara, Inl: []ref.Inl{word("after")}})
		}
		if validSkeleton(doc) != "" {
			return
		}
		c20Roundtrip(x, doc, "list-shapes")
	})
	depth := c.Pick(5, 6)
	c.Explore("canonical-deep-nesting", fmt.Sprintf("S_fmt chains of <=%d nested containers around each leaf block, canonical spelling", depth), 0, depth, func(x *X) {
		doc := deepNesting(x, depth)
		if doc == nil || validSkeleton(doc) != "" {
			return
		}
		c20Roundtrip(x, doc, "deep-nesting")
	})
	nl := c.Pick(3, 4)
	c.Explore("canonical-code-content", fmt.Sprintf("fenced and indented code blocks with every sequence of <=%d content lines from the %d-line menu (fence-like lines with trailing spaces and indentation, blank lines, markers), at top level, in a quote, as second block of a loose item and after a paragraph: the formatter has to choose a fence that the content cannot close", nl, len(codeLineMenu)), 0, nl, func(x *X) {
		leaf := codeContentLeaf(x, nl)
		if leaf == nil {
			return
		}
		ctx := x.ChooseFree(len(c06Contexts))
		doc := wrapContext(ctx, leaf)
		if r := validSkeleton(doc); r != "" {
			return
		}
		c20Roundtrip(x, doc, c06Contexts[ctx])
	})
}

// inSFmt implements the supported-construct set of DESIGN.md section 6 (C20).
func inSFmt(bs []*ref.Block, inContainer bool) string {
	for _, b := range bs {
		switch b.Kind {
		case ref.BPara, ref.BATX, ref.BSetext:
			if r := inlSFmt(b.Inl, inContainer); r != "" {
				return r
			}
		case ref.BQuote:
			if r := inSFmt(b.Kids, true); r != "" {
				return r
			}
		case ref.BBullet, ref.BOrdered:
			for _, it := range b.Items {
				if it[0].Kind != ref.BPara {
					return "list item that does not begin with a paragraph"
				}
				if r := inSFmt(it, true); r != "" {
					return r
				}
			}
		case ref.BRefDef:
			if b.Dest == "" || strings.ContainsAny(b.Dest, " <>\\&") || strings.ContainsAny(b.Title, "\"\\") {
				return "reference definition outside S_fmt"
			}
		}
	}
	return ""
}

func inlSFmt(in []ref.Inl, inContainer bool) string {
	for idx, i := range in {
		switch i.Kind {
		case ref.IPunct:
			if !strings.Contains("\\[]*_-=<>&#~`.,;:'\"()?/|", i.Text) {
				return "punctuation the formatter does not escape"
			}
			if i.Text == "!" {
				return "!"
			}
		case ref.IEmph, ref.IStrong, ref.ICode, ref.IImage, ref.IRaw:
			if inContainer && spansLine(i) {
				return "verbatim-copied construct spanning a line inside a container"
			}
			if r := inlSFmt(i.Kids, inContainer); r != "" {
				return r
			}
		case ref.ILink:
			if strings.ContainsAny(i.Dest, " \\") || strings.ContainsAny(i.Title, "\"\\\n") {
				return "inline link destination/title outside S_fmt"
			}
			if r := inlSFmt(i.Kids, inContainer); r != "" {
				return r
			}
		case ref.IRefFull, ref.IRefCollapsed, ref.IRefShortcut:
			for _, c := range i.Text {
				if !(c == ' ' || c >= '0' && c <= '9' || c >= 'a' && c <= 'z' || c >= 'A' && c <= 'Z') {
					return "reference label outside S_fmt"
				}
			}
			if strings.Contains(i.Text, "  ") {
				return "reference label with a run of spaces"
			}
			if r := inlSFmt(i.Kids, inContainer); r != "" {
				return r
			}
		case ref.IHard:
			_ = idx
		}
	}
	return ""
}

func spansLine(i ref.Inl) bool {
	if strings.Contains(i.Text, "\n") {
		return true
	}
	for _, k := range i.Kids {
		if k.Kind == ref.ISoft || k.Kind == ref.IHard || spansLine(k) {
			return true
		}
	}
	return false
}

func c20Roundtrip(x *X, doc []*ref.Block, label string) {
	if r := inSFmt(doc, false); r != "" {
		x.Count("outside S_fmt: " + r)
		return
	}
	ser := &ref.Serializer{C: zeroChooser{}}
	src := ser.Serialize(doc)
	if ser.Reject != "" {
		x.Count("rejected: " + ser.Reject)
		return
	}
	in := []byte(src)
	blocks, refs := cm.Parse(clone(in))
	var f1 bytes.Buffer
	if err := format.Format(&f1, blocks); err != nil {
		x.Fail("format-error", label, in, "Format returned %v", err)
		return
	}
	b2, r2 := cm.Parse(clone(f1.Bytes()))
	h1 := ref.Norm(renderCfg(blocks, refs, cm.SoftBreakPreserve, false))
	h2 := ref.Norm(renderCfg(b2, r2, cm.SoftBreakPreserve, false))
	x.Validated()
	if h1 != h2 {
		kind := "format-changes-html"
		x.Fail(kind, label, in, "canonical document\n%s\nrenders %q\nformatted text\n%s\nrenders %q", src, h1, f1.String(), h2)
		return
	}
	var f2 bytes.Buffer
	if err := format.Format(&f2, b2); err != nil {
		x.Fail("format-error", label, in, "second Format returned %v", err)
		return
	}
	if !bytes.Equal(f1.Bytes(), f2.Bytes()) {
		x.Fail("format-not-idempotent", label, in, "canonical document\n%s\nformats to\n%s\nwhich formats to\n%s", src, f1.String(), f2.String())
		return
	}
	if f1.String() != src {
		x.Nontrivial()
	}
	x.Count("canonical_documents_round_tripped")
	x.Outcome(tree.HashBytes(f1.Bytes()))
	x.Sample(label + ": " + q(in))
}
