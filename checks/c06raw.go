package checks

import (
	"fmt"
	"html"
	"strings"
	"unicode"

	"verif/ref"
	"verif/spaces"
	"verif/tree"

	cm "zombiezen.com/go/commonmark"
)

// C06, raw tags: which '<'...'>' stretches of a paragraph are raw HTML is fixed
// by the grammar of spec section 6.6. Two alphabets (tags with attributes;
// comments, processing instructions, declarations, CDATA) are explored inside
// one paragraph "x" + s + "x"; the reference scanner (ref.RawHTMLSpans, a
// transcription of the spec's definitions, self-tested on the spec's 21 raw
// HTML examples) says where the raw HTML constructs are, and the parsed
// paragraph must have HTMLTag nodes at exactly those spans and no autolink.

var (
	spRawTag = spaces.Space{Name: "X-rawtag", Doc: "open and closing tags with attributes: names, =, quotes, unquoted values, white space, line endings",
		Tokens: []string{"<a", "</a", "<", ">", "/", " ", "\n", "b", "=", "'", "\"", "c", "\t"}, Prefix: "x", Suffix: "x\n"}
	spRawAttr = spaces.Space{Name: "X-rawattr", Doc: "tags built from whole attributes (bare, unquoted, single- and double-quoted values) with white space and line endings between them",
		Tokens: []string{"<a", "</a", ">", "/>", " ", "\n", "b", "b=c", "b='c'", "b=\"c\"", "="}, Prefix: "x", Suffix: "x\n"}
	spRawDecl = spaces.Space{Name: "X-rawdecl", Doc: "comments, processing instructions, declarations, CDATA sections and near misses",
		Tokens: []string{"<!--", "-->", "-", ">", "<", "a", " ", "\n", "<?", "?>", "?", "<!A", "<!", "<![CDATA[", "]]>", "]"}, Prefix: "x", Suffix: "x\n", Ambiguous: true}
)

func init() {
	spaces.All = append(spaces.All, spRawTag, spRawAttr, spRawDecl)
}

// rawParagraphOK reports whether doc is one paragraph by the block rules alone:
// no blank line inside, and no continuation line that could start another
// block (conservatively: its first non-blank character is one that begins some
// block construct, or it opens an HTML block of kinds 1-6).
func rawParagraphOK(doc string) string {
	lines := strings.Split(strings.TrimSuffix(doc, "\n"), "\n")
	for i, l := range lines {
		t := strings.TrimLeft(l, " \t")
		if strings.TrimSpace(l) == "" {
			return "blank line"
		}
		if i == 0 {
			continue
		}
		if strings.IndexByte(">=-+*#`~0123456789", t[0]) >= 0 {
			return "continuation line could start a block"
		}
		if strings.HasPrefix(t, "<!") || strings.HasPrefix(t, "<?") {
			return "continuation line could start an HTML block"
		}
		lt := strings.ToLower(t)
		for _, n := range []string{"<script", "<pre", "<style", "<textarea"} {
			if strings.HasPrefix(lt, n) {
				return "continuation line could start an HTML block"
			}
		}
	}
	return ""
}

func c06RawDriver(x *X, in []byte) {
	if r := rawParagraphOK(string(in)); r != "" {
		x.Count("raw_skipped: " + r)
		return
	}
	c06RawOne(x, in)
	// the same paragraph with CRLF and with CR line endings
	for _, v := range eolVariants(in) {
		c06RawOne(x, v)
	}
}

func c06RawOne(x *X, in []byte) {
	doc := string(in)
	want := ref.RawHTMLSpans(doc)
	blocks, _ := cm.Parse(clone(in))
	x.Validated()
	if len(blocks) != 1 || blocks[0].Kind() != cm.ParagraphKind {
		x.Fail("raw-not-one-paragraph", "raw-tag-grammar", in, "%q has no blank line and no line that starts a block, but parses to %d root blocks (first kind %v)", doc, len(blocks), kindOfFirst(blocks))
		return
	}
	rb := blocks[0]
	off := int(rb.StartOffset)
	var got [][2]int
	bad := ""
	tree.Visit(rb.AsNode(), func(n, _ cm.Node, _ int) {
		if i := n.Inline(); i != nil {
			switch i.Kind() {
			case cm.HTMLTagKind:
				got = append(got, [2]int{off + i.Span().Start, off + i.Span().End})
			case cm.AutolinkKind, cm.LinkKind, cm.ImageKind, cm.EmphasisKind, cm.StrongKind, cm.CodeSpanKind, cm.CharacterReferenceKind:
				bad = i.Kind().String()
			}
		}
	})
	if bad != "" {
		x.Fail("raw-unexpected-node", "raw-tag-grammar", in, "%q contains no syntax for a %s node, yet the tree has one", doc, bad)
		return
	}
	if fmt.Sprint(got) != fmt.Sprint(want) {
		x.Fail("raw-html-spans-differ", "raw-tag-grammar", in, "raw HTML constructs of %q: tree has HTMLTag nodes at %v, the grammar of spec 6.6 gives %v", doc, got, want)
		return
	}
	// The rendered paragraph has the constructs verbatim and everything else escaped.
	out := renderCfg(blocks, nil, cm.SoftBreakPreserve, false)
	for _, sp := range want {
		if !strings.Contains(out, unindentLines(doc[sp[0]:sp[1]])) && !strings.ContainsAny(doc, "\r") {
			x.Fail("raw-html-not-verbatim", "raw-tag-grammar", in, "raw HTML %q of %q does not come out verbatim: %q", doc[sp[0]:sp[1]], doc, out)
			return
		}
	}
	if len(want) > 0 {
		x.Nontrivial()
		if strings.Contains(doc[want[0][0]:want[0][1]], "\n") {
			x.Count("raw_constructs_spanning_lines")
		}
	}
	x.Count(fmt.Sprintf("raw_constructs_%d", min(len(want), 3)))
	x.Outcome(tree.Hash64(fmt.Sprint(want)))
	x.Sample(fmt.Sprintf("%q -> %v", doc, want))
}

// unindentLines removes the leading spaces and tabs of every line but the first
// (a paragraph's continuation lines lose their indentation).
func unindentLines(s string) string {
	ls := strings.Split(s, "\n")
	for i := 1; i < len(ls); i++ {
		ls[i] = strings.TrimLeft(ls[i], " \t")
	}
	return strings.Join(ls, "\n")
}

func kindOfFirst(blocks []*cm.RootBlock) any {
	if len(blocks) == 0 {
		return "none"
	}
	return blocks[0].Kind()
}

// ---- HTML blocks (spec 4.6) -----------------------------------------------------------

// htmlLineMenu: lines that satisfy each of the seven start conditions, their
// end markers, near misses, plain text and a blank line. No line begins any
// other block construct or contains inline syntax other than raw HTML.
var htmlLineMenu = []string{
	"", "x",
	"<script>", "<pre x>", "<STYLE", "<textarea>y", "<scriptx>", "</script>", "x</pre>y", "</STYLE>",
	"<!--", "-->", "<!-- a -->",
	"<?", "?>",
	"<!A", "a>",
	"<![CDATA[", "]]>",
	"<div>", "</div>", "<div", "<DIV/>", "<divx>", "  <div>",
	"<a>", "</a>", "<a b=\"c\">", "<a> x", "<a", "b>",
}

func c06HTMLBlockDriver(x *X, lines []string) {
	doc := strings.Join(lines, "\n") + "\n"
	in := []byte(doc)
	wantRaw, contested := ref.HTMLBlockDoc(lines)
	if contested {
		x.Count("html_block_docs_skipped_contested_condition_7_name")
		return
	}
	want := squeezeLines(wantRaw)
	for vi, v := range append([][]byte{in}, eolVariants(in)...) {
		blocks, refs := cm.Parse(clone(v))
		out := renderCfg(blocks, refs, cm.SoftBreakPreserve, false)
		out = strings.ReplaceAll(strings.ReplaceAll(out, "\r\n", "\n"), "\r", "\n")
		x.Validated()
		if got := squeezeLines(out); got != want {
			x.Fail("html-block-structure", fmt.Sprintf("html-block-lines/eol=%d", vi), v, "document %q renders (normalized) %q; the start and end conditions of spec 4.6 give %q", v, got, want)
			return
		}
	}
	kinds := 0
	for _, l := range lines {
		if k := ref.HTMLBlockStart(l); k > 0 {
			kinds |= 1 << k
		}
	}
	if kinds != 0 {
		x.Nontrivial()
	}
	x.Outcome(tree.Hash64(want))
	x.Sample(fmt.Sprintf("%q -> %s", doc, truncate(want, 100)))
}

// squeezeLines drops empty lines and the line structure between blocks: the
// comparison of HTML block documents is about which lines form which block
// (tags and text verbatim, paragraphs wrapped in <p>), not about blank lines.
func squeezeLines(s string) string {
	var out []string
	for _, l := range strings.Split(s, "\n") {
		// white space at the end of a line is not significant in HTML (the library
		// keeps a single trailing space before a soft break; C06 compares modulo
		// insignificant white space everywhere)
		l = strings.TrimRight(l, " \t")
		if l != "" {
			out = append(out, l)
		}
	}
	return strings.Join(out, "\n")
}

// ---- list items that begin with a blank line (spec 5.2, rule 3) ------------------------

// c06EmptyItemStart: a marker alone on its line (optionally followed by spaces),
// then optionally one blank line in several spellings, then "foo" indented k
// columns. The spec fixes the reading: without the blank line the item holds
// "foo" when k reaches the content column W+1 (as indented code when it is 4 or
// more beyond it) and is empty otherwise; a list item can begin with at most one
// blank line, so after a blank line the item is empty and "foo" is outside.
func c06EmptyItemStart(x *X) {
	markers := []string{"-", "- ", "-   ", "*", "+ ", "1.", "1. ", "12)"}
	blanks := []string{"\x00", "", " ", "  ", "   ", "      ", "\t"}
	m := markers[x.ChooseFree(len(markers))]
	b := blanks[x.ChooseFree(len(blanks))]
	k := x.ChooseFree(9)
	quote := x.ChooseFree(2) == 1
	bare := strings.TrimRight(m, " ")
	w := len(bare)
	open, closeTag := "<ul>", "</ul>"
	if c := bare[len(bare)-1]; c == '.' || c == ')' {
		open, closeTag = "<ol>", "</ol>"
		if bare[:len(bare)-1] != "1" {
			open = `<ol start="` + bare[:len(bare)-1] + `">`
		}
	}
	lines := []string{m}
	if b != "\x00" {
		lines = append(lines, b)
	}
	lines = append(lines, strings.Repeat(" ", k)+"foo")
	code := func(extra int) string { return "<pre><code>" + strings.Repeat(" ", extra) + "foo\n</code></pre>" }
	var want string
	switch {
	case b == "\x00" && k >= w+1 && k-(w+1) >= 4:
		want = open + "<li>" + code(k-(w+1)-4) + "</li>" + closeTag
	case b == "\x00" && k >= w+1:
		want = open + "<li>foo</li>" + closeTag
	case k >= 4:
		want = open + "<li></li>" + closeTag + code(k-4)
	default:
		want = open + "<li></li>" + closeTag + "<p>foo</p>"
	}
	if quote {
		for i := range lines {
			lines[i] = "> " + lines[i]
		}
		want = "<blockquote>" + want + "</blockquote>"
	}
	in := []byte(strings.Join(lines, "\n") + "\n")
	for vi, v := range append([][]byte{in}, eolVariants(in)...) {
		blocks, refs := cm.Parse(clone(v))
		out := renderCfg(blocks, refs, cm.SoftBreakPreserve, false)
		out = strings.ReplaceAll(strings.ReplaceAll(out, "\r\n", "\n"), "\r", "\n")
		x.Validated()
		if got, w := ref.Norm(out), ref.Norm(want); got != w {
			x.Fail("empty-item-start", fmt.Sprintf("eol=%d", vi), v, "document %q renders (normalized) %q; list item rule 3 of spec 5.2 gives %q", v, got, w)
			return
		}
	}
	x.Nontrivial()
	x.Outcome(tree.Hash64(want))
	x.Sample(fmt.Sprintf("%q -> %s", in, want))
}

// ---- inline link tails (spec 6.3) -------------------------------------------------------

var spLinkTail = spaces.Space{Name: "X-linktail", Doc: "what follows a link text: destinations (bare, in angle brackets), titles in three quoting styles, parentheses, backslashes, white space, line endings",
	Tokens: []string{"<", ">", "(", ")", "\\", "\"", "'", " ", "\n", "b", "\t"}, Prefix: "[a](", Suffix: "\n"}

func init() { spaces.All = append(spaces.All, spLinkTail) }

// c06LinkTailDriver: "[a](" + s. The reference (ref.InlineLinkTailAt, a
// transcription of the definitions of link destination, link title and inline
// link, self-tested on the spec's link examples) says whether the paragraph
// begins with an inline link, where it ends and what its destination and title
// are; the tree must say the same.
func c06LinkTailDriver(x *X, in []byte) {
	doc := string(in)
	if r := rawParagraphOK(doc); r != "" {
		x.Count("linktail_skipped: " + r)
		return
	}
	for _, v := range append([][]byte{in}, eolVariants(in)...) {
		c06LinkTailOne(x, v)
	}
}

func c06LinkTailOne(x *X, in []byte) {
	doc := string(in)
	want, wantOK := ref.InlineLinkTailAt(doc, 3)
	blocks, _ := cm.Parse(clone(in))
	x.Validated()
	if len(blocks) != 1 || blocks[0].Kind() != cm.ParagraphKind || blocks[0].StartOffset != 0 {
		x.Fail("linktail-not-one-paragraph", "link-tail-grammar", in, "%q has no blank line and no line that starts a block, but parses to %d root blocks (first kind %v)", doc, len(blocks), kindOfFirst(blocks))
		return
	}
	rb := blocks[0]
	var link *cm.Inline
	if rb.ChildCount() > 0 {
		if c := rb.Child(0).Inline(); c != nil && c.Kind() == cm.LinkKind && c.Span().Start == 0 {
			link = c
		}
	}
	if (link != nil) != wantOK {
		x.Fail("inline-link-recognition", "link-tail-grammar", in, "%q: the tree begins with an inline link: %v; the grammar of spec 6.3 says: %v (%+v)", doc, link != nil, wantOK, want)
		return
	}
	if link == nil {
		x.Outcome(0)
		x.Sample(fmt.Sprintf("%q -> no link", doc))
		return
	}
	gotDest, gotTitle, gotHasTitle := "", "", false
	if d := link.LinkDestination(); d != nil {
		gotDest = d.Text(rb.Source)
	}
	if t := link.LinkTitle(); t != nil {
		gotTitle, gotHasTitle = t.Text(rb.Source), true
	}
	wantTitle := want.Title
	if strings.ContainsAny(wantTitle, "\r\n") {
		// continuation lines of a title lose their leading white space only through
		// the paragraph's own line handling; compare modulo that
		wantTitle, gotTitle = squeezeTitle(wantTitle), squeezeTitle(gotTitle)
	}
	if link.Span().End != want.End || gotDest != want.Dest || gotHasTitle != want.HasTitle || gotTitle != wantTitle {
		x.Fail("inline-link-parts", "link-tail-grammar", in, "%q: tree has a link ending at %d with destination %q, title %q (present=%v); the grammar of spec 6.3 gives end %d, destination %q, title %q (present=%v)",
			doc, link.Span().End, gotDest, gotTitle, gotHasTitle, want.End, want.Dest, wantTitle, want.HasTitle)
		return
	}
	x.Nontrivial()
	if want.HasTitle {
		x.Count("links_with_title")
	}
	x.Outcome(tree.Hash64(fmt.Sprintf("%+v", want)))
	x.Sample(fmt.Sprintf("%q -> %+v", doc, want))
}

// squeezeTitle removes the white space around line endings inside a title.
func squeezeTitle(s string) string {
	ls := strings.FieldsFunc(s, func(r rune) bool { return r == '\n' || r == '\r' })
	for i := range ls {
		if i > 0 {
			ls[i] = strings.TrimLeft(ls[i], " \t")
		}
	}
	return strings.Join(ls, "\n")
}

// ---- every named character reference ---------------------------------------------------

// c06AllEntities: each of the HTML5 named character references (the table the
// spec points to), and the same name with one more letter appended (not a
// reference unless the table says so), in running text, in a link title and in
// an info string.
func c06AllEntities(x *X, names []string) {
	name := names[x.ChooseFree(len(names))]
	if x.ChooseFree(2) == 1 {
		name += "q"
	}
	isRef := ref.EntityNames[name]
	ent := "&" + name + ";"
	lit := "&amp;" + name + ";"
	den, denAttr := ent, html.EscapeString(html.UnescapeString(ent))
	if !isRef {
		den, denAttr = lit, lit
	}
	type ctxT struct{ name, doc, want string }
	ctxs := []ctxT{
		{"text", "x" + ent + "y\n", "<p>x" + den + "y</p>"},
		{"title", "[a](/u \"" + ent + "\")\n", "<p><a href=\"/u\" title=\"" + denAttr + "\">a</a></p>"},
		{"heading", "# " + ent + "\n", "<h1>" + den + "</h1>"},
	}
	if v := html.UnescapeString(ent); !strings.ContainsAny(v, " \t\n\r\f\v \u0085  ") && !strings.ContainsFunc(v, unicode.IsSpace) {
		ctxs = append(ctxs, ctxT{"info", "```" + ent + "\nc\n```\n", "<pre><code class=\"language-" + denAttr + "\">c\n</code></pre>"})
	}
	for _, cx := range ctxs {
		in := []byte(cx.doc)
		blocks, refs := cm.Parse(clone(in))
		out := renderCfg(blocks, refs, cm.SoftBreakPreserve, false)
		x.Validated()
		if got, want := ref.Norm(out), ref.Norm(cx.want); got != want {
			x.Fail("named-character-reference", cx.name, in, "%q renders (normalized) %q; with %s %s a character reference of the HTML5 table the denotation is %q", cx.doc, got, ent, map[bool]string{true: "being", false: "not being"}[isRef], want)
		}
	}
	if isRef {
		x.Nontrivial()
	}
	x.Outcome(tree.Hash64(name))
	x.Sample(ent)
}

// ---- sibling leaves: what one paragraph leaves behind for the next -----------------------

var spLeaf = spaces.Space{Name: "X-leaf", Doc: "one line of inline material: openers and closers of code spans, emphasis, links, raw HTML, a character reference",
	Tokens: []string{"`", "a", "*", "_", "[", "]", "(u)", "<", ">", "&amp;"}}

func init() { spaces.All = append(spaces.All, spLeaf) }

// plainParagraphLine reports whether the line, on its own and as the first line
// of a list item or of a block quote, is nothing but a one-line paragraph.
func plainParagraphLine(l string) bool {
	if l == "" || strings.TrimSpace(l) != l {
		return false
	}
	if ref.ThematicBreak(l) >= 0 || ref.HTMLBlockStart(l) > 0 || ref.HTMLBlockContested(l) || ref.SetextUnderline(l) > 0 {
		return false
	}
	if _, _, w := ref.ListMarker(l); w >= 0 {
		return false
	}
	if lv, _, _ := ref.ATXHeading(l); lv > 0 {
		return false
	}
	if _, n, _ := ref.CodeFence(l); n > 0 {
		return false
	}
	return l[0] != '>' && l != "*" && l != "_" && !strings.HasPrefix(l, "[")
}

// c06SiblingLeaves: two one-line paragraphs X and Y as the two items of a tight
// list, as two paragraphs of one block quote and as two paragraphs of one loose
// list item. A paragraph's inline content is parsed on its own, so each must
// render inside the container exactly as it renders as a document of its own
// (which the other explorations judge): nothing that parsing X's text produced
// (delimiters, bracket openers, scan results for backtick strings) may affect Y.
func c06SiblingLeaves(x *X) {
	xs := string(x.Tokens(spLeaf, 2))
	ys := string(x.Tokens(spLeaf, 3))
	if !plainParagraphLine(xs) || !plainParagraphLine(ys) {
		x.Count("sibling_leaves_skipped_not_plain_paragraph_lines")
		return
	}
	inner := func(s string) (string, bool) {
		b, r := cm.Parse([]byte(s + "\n"))
		if len(b) != 1 || b[0].Kind() != cm.ParagraphKind {
			return "", false
		}
		h := renderCfg(b, r, cm.SoftBreakPreserve, false)
		return strings.TrimSuffix(strings.TrimPrefix(h, "<p>"), "</p>"), true
	}
	hx, ok1 := inner(xs)
	hy, ok2 := inner(ys)
	if !ok1 || !ok2 {
		x.Fail("sibling-leaves-not-a-paragraph", "", []byte(xs+"\n\n"+ys), "%q or %q is a plain paragraph line by the block rules but does not parse to one paragraph", xs, ys)
		return
	}
	ctxs := []struct{ name, doc, want string }{
		{"tight-list", "- " + xs + "\n- " + ys + "\n", "<ul><li>" + hx + "</li><li>" + hy + "</li></ul>"},
		{"quote", "> " + xs + "\n>\n> " + ys + "\n", "<blockquote><p>" + hx + "</p><p>" + hy + "</p></blockquote>"},
		{"loose-item", "1. " + xs + "\n\n   " + ys + "\n", "<ol><li><p>" + hx + "</p><p>" + hy + "</p></li></ol>"},
	}
	for _, cx := range ctxs {
		in := []byte(cx.doc)
		b, r := cm.Parse(clone(in))
		got := ref.Norm(renderCfg(b, r, cm.SoftBreakPreserve, false))
		x.Validated()
		if want := ref.Norm(cx.want); got != want {
			x.Fail("sibling-leaves-differ", cx.name, in, "%q renders (normalized) %q; its two paragraphs on their own render %q and %q, so the container must give %q", cx.doc, got, hx, hy, want)
			return
		}
	}
	if hx != xs || hy != ys {
		x.Nontrivial()
	}
	x.Outcome(tree.Hash64(hx + "\x00" + hy))
	x.Sample(fmt.Sprintf("%q | %q", xs, ys))
}

// ---- code spans (spec 6.1) ---------------------------------------------------------------

var spCodeSpan = spaces.Space{Name: "X-codespan", Doc: "backtick strings of length 1 and 2 (adjacent tokens make longer ones), text, spaces, line endings",
	Tokens: []string{"`", "``", "a", " ", "\n"}, Prefix: "x", Suffix: "x\n", Ambiguous: true}

func init() { spaces.All = append(spaces.All, spCodeSpan) }

// refCodeSpans: spec 6.1 read literally. A backtick string is a maximal run of
// backticks; a code span begins with a backtick string and ends with the next
// backtick string of equal length; a backtick string without a partner is
// literal text. Returns the spans and the contents (line endings, with the
// indentation of the following paragraph line, become single spaces; one space
// is stripped from both ends when both are there and the content is not all spaces).
func refCodeSpans(s string) (spans [][2]int, contents []string) {
	type run struct{ i, j int }
	var runs []run
	for i := 0; i < len(s); {
		if s[i] != '`' {
			i++
			continue
		}
		j := i
		for j < len(s) && s[j] == '`' {
			j++
		}
		runs = append(runs, run{i, j})
		i = j
	}
	for a := 0; a < len(runs); {
		n := runs[a].j - runs[a].i
		b := a + 1
		for b < len(runs) && runs[b].j-runs[b].i != n {
			b++
		}
		if b == len(runs) {
			a++
			continue
		}
		inner := s[runs[a].j:runs[b].i]
		var sb strings.Builder
		for i := 0; i < len(inner); i++ {
			if inner[i] == '\n' || inner[i] == '\r' {
				if inner[i] == '\r' && i+1 < len(inner) && inner[i+1] == '\n' {
					i++
				}
				// trailing white space of the line stays; the next line's indentation goes
				for i+1 < len(inner) && (inner[i+1] == ' ' || inner[i+1] == '\t') {
					i++
				}
				sb.WriteByte(' ')
				continue
			}
			sb.WriteByte(inner[i])
		}
		c := sb.String()
		if len(c) >= 2 && c[0] == ' ' && c[len(c)-1] == ' ' && strings.Trim(c, " ") != "" {
			c = c[1 : len(c)-1]
		}
		spans = append(spans, [2]int{runs[a].i, runs[b].j})
		contents = append(contents, c)
		a = b + 1
	}
	return spans, contents
}

func c06CodeSpanDriver(x *X, in []byte) {
	doc := string(in)
	for i, l := range strings.Split(strings.TrimSuffix(doc, "\n"), "\n") {
		if strings.TrimSpace(l) == "" {
			x.Count("codespan_skipped_blank_line")
			return
		}
		t := strings.TrimLeft(l, " ")
		if _, n, _ := ref.CodeFence(t); i > 0 && n > 0 && len(l)-len(t) <= 3 {
			x.Count("codespan_skipped_fence_line")
			return
		}
	}
	for _, v := range append([][]byte{in}, eolVariants(in)...) {
		d := string(v)
		want, wantC := refCodeSpans(d)
		blocks, _ := cm.Parse(clone(v))
		x.Validated()
		if len(blocks) != 1 || blocks[0].Kind() != cm.ParagraphKind {
			x.Fail("codespan-not-one-paragraph", "code-span-grammar", v, "%q has no blank line and no fence line, but parses to %d root blocks (first kind %v)", d, len(blocks), kindOfFirst(blocks))
			return
		}
		rb := blocks[0]
		var got [][2]int
		var gotC []string
		for i := 0; i < rb.ChildCount(); i++ {
			c := rb.Child(i).Inline()
			if c == nil || c.Kind() != cm.CodeSpanKind {
				continue
			}
			got = append(got, [2]int{int(rb.StartOffset) + c.Span().Start, int(rb.StartOffset) + c.Span().End})
			var sb strings.Builder
			for k := 0; k < c.ChildCount(); k++ {
				sb.WriteString(c.Child(k).Text(rb.Source))
			}
			gotC = append(gotC, sb.String())
		}
		if fmt.Sprint(got) != fmt.Sprint(want) || fmt.Sprintf("%q", gotC) != fmt.Sprintf("%q", wantC) {
			x.Fail("code-spans-differ", "code-span-grammar", v, "%q: the tree has code spans at %v with contents %q; spec 6.1 gives %v with contents %q", d, got, gotC, want, wantC)
			return
		}
		if len(want) > 0 {
			x.Nontrivial()
		}
	}
	x.Outcome(tree.HashBytes(in))
	x.Sample(fmt.Sprintf("%q", doc))
}

// ---- hard and soft line breaks (spec 6.7, 6.8) ---------------------------------------------

var spBreaks = spaces.Space{Name: "X-breaks", Doc: "text, single and double spaces, backslashes, tabs and line endings inside one paragraph",
	Tokens: []string{"a", " ", "  ", "\\", "\t", "\n"}, Prefix: "x", Suffix: "x\n", Ambiguous: true}

func init() { spaces.All = append(spaces.All, spBreaks) }

// c06BreaksDriver: every line ending inside the paragraph is a hard break when
// the line ends in two or more spaces or in a backslash that is not itself
// escaped, and a soft break otherwise (spec 6.7, 6.8); the last line has no break.
func c06BreaksDriver(x *X, in []byte) {
	doc := string(in)
	lines := strings.Split(strings.TrimSuffix(doc, "\n"), "\n")
	var want []bool
	for i, l := range lines {
		if strings.TrimSpace(l) == "" {
			x.Count("breaks_skipped_blank_line")
			return
		}
		if i == len(lines)-1 {
			break
		}
		n := 0
		for n < len(l) && l[len(l)-1-n] == '\\' {
			n++
		}
		want = append(want, n%2 == 1 || (n == 0 && strings.HasSuffix(l, "  ")))
	}
	for _, v := range append([][]byte{in}, eolVariants(in)...) {
		blocks, refs := cm.Parse(clone(v))
		x.Validated()
		if len(blocks) != 1 || blocks[0].Kind() != cm.ParagraphKind {
			x.Fail("breaks-not-one-paragraph", "line-break-grammar", v, "%q has no blank line, but parses to %d root blocks (first kind %v)", v, len(blocks), kindOfFirst(blocks))
			return
		}
		out := renderCfg(blocks, refs, cm.SoftBreakPreserve, false)
		out = strings.ReplaceAll(strings.ReplaceAll(out, "\r\n", "\n"), "\r", "\n")
		var got []bool
		for i := 0; i < len(out); {
			switch {
			case strings.HasPrefix(out[i:], "<br>"):
				got = append(got, true)
				i += 4
				for i < len(out) && out[i] == '\n' {
					i++
				}
			case out[i] == '\n':
				got = append(got, false)
				i++
			default:
				i++
			}
		}
		if fmt.Sprint(got) != fmt.Sprint(want) {
			x.Fail("line-breaks-differ", "line-break-grammar", v, "%q renders %q: line endings are hard breaks %v; spec 6.7 gives %v", v, out, got, want)
			return
		}
	}
	for _, h := range want {
		if h {
			x.Nontrivial()
		}
	}
	x.Outcome(tree.Hash64(fmt.Sprint(want)) ^ tree.HashBytes(in))
	x.Sample(fmt.Sprintf("%q -> %v", doc, want))
}
