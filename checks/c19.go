package checks

import (
	"bytes"
	"context"
	"encoding/json"
	"fmt"
	"os"
	"os/exec"
	"path/filepath"
	"strings"
	"sync"
	"time"

	"verif/mc"
	"verif/ref"
	"verif/tree"

	cm "zombiezen.com/go/commonmark"
	"zombiezen.com/go/commonmark/format"
)

// ---------------------------------------------------------------------------
// C19: parsing and rendering share no mutable state.
//
// Part 1 (this file, instrumented worker): a cooperative scheduler runs 2-3
// harness threads of which exactly one executes; every VerifStep call of the
// statement-level instrumentation is a scheduling point at which the explorer
// may switch threads (cost 1 = a preemption). All schedules within the
// preemption bound are enumerated; every thread's result must equal its
// sequential result and the shared tree must be observably unchanged.
//
// Part 2 (race flavour of the binary, `verif racepass`): the same thread
// bodies as free-running goroutines under the race detector.

// ---- cooperative scheduler -------------------------------------------------

type coThread struct {
	seen     []bool // coarse mode: function entries this thread has already passed
	resume   chan struct{}
	fn       func()
	done     bool
	panicVal any
}

type coSched struct {
	x          *X
	threads    []*coThread
	cur        int
	coarseOnly bool
	syncOnly   bool // scheduling points only at synchronisation operations (and thread ends)
	syncPoints int  // synchronisation-operation points met
	lastStmt   int  // id of the last instrumented statement executed
	info       *pointTable
	allDone    chan struct{}
	preempts   []int  // point ids at which a preemption happened
	points     int    // scheduling points offered
	steps      int    // instrumented statements executed by all threads
	streak     int    // consecutive "blocked" reports with no statement in between
	abort      string // non-empty: the execution is being torn down (deadlock, no progress)
}

// coAbort unwinds a harness thread when the execution is torn down.
type coAbort struct{}

// c19Horizon bounds the statements of one execution: sequential executions of
// the harness bodies take about 10^4; a thread that spins on a condition only
// another thread can establish never ends under a cooperative scheduler.
const c19Horizon = 5_000_000

type pointInfo struct {
	ID     int    `json:"id"`
	File   string `json:"file"`
	Func   string `json:"func"`
	Line   int    `json:"line"`
	Coarse bool   `json:"coarse"`
	Entry  bool   `json:"entry"`
}

type pointTable struct{ pts []pointInfo }

var (
	pointsOnce sync.Once
	pointsTab  *pointTable
)

func loadPoints() *pointTable {
	pointsOnce.Do(func() {
		path := os.Getenv("VERIF_POINTS")
		data, err := os.ReadFile(path)
		if err != nil {
			panic(&mc.FrameworkError{Msg: "C19: cannot read the instrumentation point table (VERIF_POINTS): " + err.Error()})
		}
		t := &pointTable{}
		if err := json.Unmarshal(data, &t.pts); err != nil {
			panic(&mc.FrameworkError{Msg: "C19: bad point table: " + err.Error()})
		}
		pointsTab = t
	})
	return pointsTab
}

func (s *coSched) others() []int {
	var en []int
	for i, t := range s.threads {
		if i != s.cur && !t.done {
			en = append(en, i)
		}
	}
	return en
}

// point is installed as cm.VerifPoint while the threads run.
func (s *coSched) point(id int) {
	if s.abort != "" {
		panic(coAbort{})
	}
	if id == -1 {
		s.blocked()
		return
	}
	if id == -2 {
		// A synchronisation operation of the sync stand-in: always a scheduling
		// point, at every granularity.
		s.streak = 0
		s.offer(id)
		return
	}
	s.streak = 0
	s.lastStmt = id
	s.steps++
	if s.steps > c19Horizon {
		s.abort = fmt.Sprintf("no progress: more than %d statements executed without all threads ending", c19Horizon)
		panic(coAbort{})
	}
	if s.syncOnly {
		return
	}
	if s.coarseOnly {
		// Coarse granularity: the first time a thread enters each function.
		if id >= len(s.info.pts) || !s.info.pts[id].Entry {
			return
		}
		t := s.threads[s.cur]
		if t.seen == nil {
			t.seen = make([]bool, len(s.info.pts))
		}
		if t.seen[id] {
			return
		}
		t.seen[id] = true
	}
	s.offer(id)
}

// offer makes the current point a scheduling point.
func (s *coSched) offer(id int) {
	en := s.others()
	if len(en) == 0 {
		return
	}
	s.points++
	if id == -2 {
		s.syncPoints++
	}
	c := s.x.Choose(1 + len(en)) // 0: keep running; otherwise preempt (cost 1)
	if c == 0 {
		return
	}
	if id == -2 {
		// recorded as -(statement id)-10: "at a synchronisation operation after that statement"
		s.preempts = append(s.preempts, -s.lastStmt-10)
	} else {
		s.preempts = append(s.preempts, id)
	}
	s.switchTo(en[c-1])
}

func (s *coSched) switchTo(next int) {
	me := s.cur
	s.cur = next
	s.threads[next].resume <- struct{}{}
	<-s.threads[me].resume
	if s.abort != "" {
		panic(coAbort{})
	}
}

// blocked is reached through the sync stand-in (hooks/verifsync) when the
// running thread cannot take a lock: control goes to the next live thread in
// cyclic order (not a preemption: the thread cannot run). If every live thread
// reports blocked in turn without any statement being executed in between,
// nobody can ever release anything: deadlock.
func (s *coSched) blocked() {
	s.streak++
	en := s.others()
	if len(en) == 0 || s.streak > 2*len(s.threads) {
		s.abort = "deadlock: every live thread is blocked on a lock"
		panic(coAbort{})
	}
	next := en[0]
	for _, i := range en {
		if i > s.cur {
			next = i
			break
		}
	}
	s.switchTo(next)
}

func (s *coSched) finish(i int) {
	s.threads[i].done = true
	en := s.others()
	if len(en) == 0 {
		close(s.allDone)
		return
	}
	c := 0
	if len(en) > 1 && s.abort == "" {
		c = s.x.ChooseFree(len(en)) // not a preemption: the running thread ended
	}
	s.cur = en[c]
	s.threads[s.cur].resume <- struct{}{}
}

// run executes the thread bodies under the scheduler and returns when all ended.
func (s *coSched) run(fns []func()) {
	s.allDone = make(chan struct{})
	for _, fn := range fns {
		s.threads = append(s.threads, &coThread{resume: make(chan struct{}), fn: fn})
	}
	for i := range s.threads {
		i := i
		t := s.threads[i]
		go func() {
			<-t.resume
			defer func() {
				if r := recover(); r != nil {
					if _, ok := r.(coAbort); ok {
						// torn down
					} else if fe, ok := r.(*mc.FrameworkError); ok {
						t.panicVal = fe
					} else {
						t.panicVal = r
					}
				}
				s.finish(i)
			}()
			t.fn()
		}()
	}
	first := s.x.ChooseFree(len(s.threads))
	s.cur = first
	saved := cm.VerifPoint
	cm.VerifPoint = s.point
	s.threads[first].resume <- struct{}{}
	<-s.allDone
	cm.VerifPoint = saved
}

// ---- harness operations -----------------------------------------------------

const (
	c19DocA      = "*x* [a]\n\n[a]: /u\n"
	c19DocB      = "> <B>\x00`c`&amp;\n"
	c19DocC      = "1. &copy;\n<http://a.b>\n\n<b>\n"
	c19DocD      = "~~~x\nb\n~~~\n<div>\n"
	c19SharedDoc = "- *a* <SCRIPT>b</SCRIPT>\n\n[l](/u \"t\") <Xmp>\n"
)

// Larger documents that between them reach every construct of the language;
// explored at the cheap granularities only (first function entries, and
// synchronisation operations if the code has any).
const (
	c19BigA = "# H *e* `c`\n\nSetext\n===\n\n> q **s** [l](/u \"t\") ![i](/s)\n> <B> &amp; &#35; \\*\n\n1. one\n2. two\n\n   para\n\n- a\n  - b\n\n```go x\ncode\n```\n\n    ind\n\n<div>\nraw\n</div>\n\n[r]: /ref 'T'\n\n[r] [x][r] [r][] <http://a.b> <a@b.c> a  \nb\\\nc\n\n***\n"
	c19BigB = "- [ß][SS] *a _b_ **c***\x00\n\n[ss]: <u v> (t)\n\n~~~\n~~\n~~~\n\n> 1) x\n>\n>    y\n\n<!-- c -->\n\n<SCRIPT>a</SCRIPT> ``x ` y`` [a](<b c> 'd\ne')\n\n<a href=\"x\" title=\"yyyy\">\n"
)

type c19Op struct {
	name string
	// mk returns the thread body and a function giving its result afterwards.
	mk func(sh *c19Shared) (body func(), result func() string)

	big bool // only in the explorations for larger documents
}

type c19Shared struct {
	blocks   []*cm.RootBlock
	refs     cm.ReferenceMap
	renderer *cm.HTMLRenderer // one value shared by all "RenderShared" threads

	bigBlocks   []*cm.RootBlock
	bigRefs     cm.ReferenceMap
	bigRenderer *cm.HTMLRenderer

	// one InlineParser value used by every "StreamRewriteShared" thread; its
	// reference map holds the definitions of all harness documents and is only read
	inlineParser *cm.InlineParser
}

func newC19Shared(big bool) *c19Shared {
	blocks, refs := cm.Parse([]byte(c19SharedDoc))
	sh := &c19Shared{blocks: blocks, refs: refs,
		renderer: &cm.HTMLRenderer{ReferenceMap: refs, SoftBreakBehavior: cm.SoftBreakHarden, FilterTag: cm.FilterTagGFM}}
	all := cm.ReferenceMap{}
	for _, d := range []string{c19DocA, c19DocB, c19DocC, c19DocD} {
		_, r := cm.Parse([]byte(d))
		for k, v := range r {
			all[k] = v
		}
	}
	sh.inlineParser = &cm.InlineParser{ReferenceMatcher: all}
	if big {
		sh.bigBlocks, sh.bigRefs = cm.Parse([]byte(c19BigA))
		sh.bigRenderer = &cm.HTMLRenderer{ReferenceMap: sh.bigRefs, FilterTag: cm.FilterTagGFM}
	}
	return sh
}

func (sh *c19Shared) dump() string {
	return tree.Dump(sh.blocks, sh.refs, tree.Full) + tree.Dump(sh.bigBlocks, sh.bigRefs, tree.Full)
}

func comboBig(combo []int) bool {
	for _, oi := range combo {
		if c19Ops[oi].big {
			return true
		}
	}
	return false
}

func parseOp(name, doc string) c19Op {
	return c19Op{name: name, mk: func(*c19Shared) (func(), func() string) {
		var out string
		return func() {
				blocks, refs := cm.Parse([]byte(doc))
				h, _ := renderHTML(&cm.HTMLRenderer{ReferenceMap: refs}, blocks)
				out = tree.Dump(blocks, refs, tree.Full) + h
			}, func() string {
				return out
			}
	}}
}

// streamRewriteOp parses a document block by block and rewrites the inlines of
// its blocks through the InlineParser value that all such threads share (the
// documented streaming pipeline in a server that keeps one parser around).
func streamRewriteOp(name, doc string) c19Op {
	return c19Op{name: name, mk: func(sh *c19Shared) (func(), func() string) {
		var out string
		return func() {
				p := cm.NewBlockParser(strings.NewReader(doc))
				var blocks []*cm.RootBlock
				for {
					b, err := p.NextBlock()
					if err != nil {
						break
					}
					blocks = append(blocks, b)
				}
				for _, b := range blocks {
					sh.inlineParser.Rewrite(b)
				}
				h, _ := renderHTML(&cm.HTMLRenderer{ReferenceMap: sh.inlineParser.ReferenceMatcher.(cm.ReferenceMap)}, blocks)
				out = tree.Dump(blocks, nil, tree.Full) + h
			}, func() string {
				return out
			}
	}}
}

func parseBigOp(name, doc string) c19Op {
	op := parseOp(name, doc)
	op.big = true
	return op
}

var c19Ops = []c19Op{
	parseOp("ParseA", c19DocA),
	parseOp("ParseB", c19DocB),
	parseOp("ParseC", c19DocC),
	parseOp("ParseD", c19DocD),
	streamRewriteOp("StreamRewriteSharedA", c19DocA),
	streamRewriteOp("StreamRewriteSharedC", c19DocC),
	{name: "RenderShared", mk: func(sh *c19Shared) (func(), func() string) {
		var out string
		return func() { out, _ = renderHTML(sh.renderer, sh.blocks) }, func() string { return out }
	}},
	{name: "RenderOwn1", mk: func(sh *c19Shared) (func(), func() string) {
		var out string
		return func() {
			out, _ = renderHTML(&cm.HTMLRenderer{ReferenceMap: sh.refs, FilterTag: func(t []byte) bool { return string(t) == "xmp" }}, sh.blocks)
		}, func() string { return out }
	}},
	{name: "RenderOwn2", mk: func(sh *c19Shared) (func(), func() string) {
		var out string
		return func() {
			out, _ = renderHTML(&cm.HTMLRenderer{ReferenceMap: sh.refs, IgnoreRaw: true, SoftBreakBehavior: cm.SoftBreakSpace}, sh.blocks)
		}, func() string { return out }
	}},
	{name: "Format", mk: func(sh *c19Shared) (func(), func() string) {
		var buf bytes.Buffer
		return func() { format.Format(&buf, sh.blocks) }, func() string { return buf.String() }
	}},
	{name: "FormatPlainWriter", mk: func(sh *c19Shared) (func(), func() string) {
		// a writer without a WriteString method: Format goes through its adapter
		var buf bytes.Buffer
		return func() { format.Format(onlyWriter{&buf}, sh.blocks) }, func() string { return buf.String() }
	}},
	{name: "Walk", mk: func(sh *c19Shared) (func(), func() string) {
		var sb strings.Builder
		return func() {
			for _, b := range sh.blocks {
				cm.Walk(b.AsNode(), &cm.WalkOptions{
					Pre: func(c *cm.Cursor) bool {
						fmt.Fprintf(&sb, "pre %s %d;", tree.KindName(c.Node()), c.Index())
						return c.Node().Inline() == nil || c.Node().Inline().Kind() != cm.EmphasisKind
					},
					Post: func(c *cm.Cursor) bool { fmt.Fprintf(&sb, "post %s;", tree.KindName(c.Node())); return true },
				})
			}
		}, func() string { return sb.String() }
	}},
}

func init() {
	c19Ops = append(c19Ops,
		parseBigOp("ParseBigA", c19BigA),
		parseBigOp("ParseBigB", c19BigB),
		c19Op{big: true, name: "RenderBigShared", mk: func(sh *c19Shared) (func(), func() string) {
			var out string
			return func() { out, _ = renderHTML(sh.bigRenderer, sh.bigBlocks) }, func() string { return out }
		}},
		c19Op{big: true, name: "FormatBig", mk: func(sh *c19Shared) (func(), func() string) {
			var buf bytes.Buffer
			return func() { format.Format(&buf, sh.bigBlocks) }, func() string { return buf.String() }
		}},
		c19Op{big: true, name: "WalkBig", mk: func(sh *c19Shared) (func(), func() string) {
			n := 0
			return func() {
				for _, b := range sh.bigBlocks {
					cm.Walk(b.AsNode(), &cm.WalkOptions{Pre: func(*cm.Cursor) bool { n++; return true }, Post: func(*cm.Cursor) bool { n++; return true }})
				}
			}, func() string { return fmt.Sprint(n) }
		}},
	)
}

// c19CombosOf lists every multiset of n operations of the given class.
func c19CombosOf(n int, big bool) [][]int {
	var out [][]int
	for _, c := range c19Combos(n) {
		ok := true
		for _, oi := range c {
			if c19Ops[oi].big != big {
				ok = false
			}
		}
		if ok {
			out = append(out, c)
		}
	}
	return out
}

func init() {
	// A walk that is aborted half-way (Post returns false) followed by a complete
	// one in the same thread: whatever the aborted walk left behind (a recycled
	// stack, a cursor) is in use while the other thread runs.
	c19Ops = append(c19Ops, c19Op{name: "WalkAbortedThenWalk", mk: func(sh *c19Shared) (func(), func() string) {
		var sb strings.Builder
		return func() {
			for _, b := range sh.blocks {
				n := 0
				cm.Walk(b.AsNode(), &cm.WalkOptions{Post: func(c *cm.Cursor) bool { n++; return n < 3 }})
				cm.Walk(b.AsNode(), &cm.WalkOptions{
					Pre: func(c *cm.Cursor) bool {
						fmt.Fprintf(&sb, "pre %s %d;", tree.KindName(c.Node()), c.Index())
						return true
					},
					Post: func(c *cm.Cursor) bool { fmt.Fprintf(&sb, "post %s;", tree.KindName(c.Node())); return true },
				})
			}
		}, func() string { return sb.String() }
	}})
}

// c19Combos lists every multiset of n operations.
func c19Combos(n int) [][]int {
	var out [][]int
	var rec func(start int, cur []int)
	rec = func(start int, cur []int) {
		if len(cur) == n {
			out = append(out, append([]int(nil), cur...))
			return
		}
		for i := start; i < len(c19Ops); i++ {
			rec(i, append(cur, i))
		}
	}
	rec(0, nil)
	return out
}

var c19Sequential = map[int]string{}

func c19SeqResult(op int) string {
	if r, ok := c19Sequential[op]; ok {
		return r
	}
	sh := newC19Shared(c19Ops[op].big)
	body, res := c19Ops[op].mk(sh)
	body()
	c19Sequential[op] = res()
	return c19Sequential[op]
}

func init() {
	register(&Check{
		ID:   "C19",
		Rule: "part 1: for every multiset of 2 (thorough: also 3) operations from {Parse(A), Parse(B), Parse(C), Parse(D), Render through one shared HTMLRenderer, Render through two own renderers, Format into a writer with and into one without WriteString, Walk, an aborted Walk followed by a complete one} on one shared pre-parsed tree (and, at the cheaper granularities, from {Parse of two larger documents that reach every construct, Render/Format/Walk of a larger shared tree}), every schedule with at most p preemptions, where a scheduling point is every instrumented statement (fine) or the first entry of each thread into each function (coarse): bound 1 fine and bound 2 coarse (quick), bound 2 fine for pairs, bound 3 coarse, and triples at bound 1 fine / 2 coarse (thorough); non-trivial = the schedule contains at least one preemption; part 2: in a -race build, every operation pair as free-running goroutines released by a barrier, one fresh process per pair (so the first run meets every lazily built table or cache cold), repeated; and the 652 spec examples parsed/rendered/formatted/walked by 2 and by 8 goroutines at once and then each tree rendered (one shared renderer, twice), formatted and walked concurrently; any race report or result differing from the sequential one is a violation",
		Assumptions: []string{
			"interleavings are decided at statement granularity; Go's memory model below that and paths the harness bodies do not execute are outside part 1",
			"the data-race clause is decided by the race detector in a separate free-running pass (cooperative hand-offs are happens-before edges that would blind it); it is not an enumeration of schedules",
			"harness inputs are small (17-45 bytes) so that all schedules within the bound can be enumerated",
		},
		Run:  c19Run,
		Post: c19RacePass,
	})
}

func c19Run(c *Ctx) {
	if !Instrumented() {
		panic(&mc.FrameworkError{Msg: "C19 needs the instrumented worker flavour (./run builds it)"})
	}
	info := loadPoints()
	type cfg struct {
		name     string
		n        int
		big      bool
		coarse   bool
		syncOnly bool
		bound    int
	}
	cfgs := []cfg{
		{"pairs-fine-p1", 2, false, false, false, 1},
		{"pairs-coarse-p2", 2, false, true, false, 2},
		{"big-pairs-coarse-p1", 2, true, true, false, 1},
		{"big-pairs-sync-p2", 2, true, false, true, 2},
	}
	if c.Thorough() {
		cfgs = []cfg{
			{"pairs-fine-p2", 2, false, false, false, 2},
			{"pairs-coarse-p3", 2, false, true, false, 3},
			{"triples-fine-p1", 3, false, false, false, 1},
			{"triples-coarse-p2", 3, false, true, false, 2},
			{"big-pairs-coarse-p2", 2, true, true, false, 2},
			{"big-triples-coarse-p1", 3, true, true, false, 1},
			{"big-pairs-sync-p3", 2, true, false, true, 3},
		}
	}
	for _, cf := range cfgs {
		cf := cf
		combos := c19CombosOf(cf.n, cf.big)
		gran := "every instrumented statement"
		if cf.coarse {
			gran = "the first time each thread enters each function or function literal"
		}
		if cf.syncOnly {
			gran = "synchronisation operations only (none in the unchanged library: then one execution per multiset and thread order)"
		} else {
			gran += ", and every synchronisation operation"
		}
		class := "operations on the small harness documents"
		if cf.big {
			class = "operations on the two larger documents that reach every construct"
		}
		c.Explore(cf.name, fmt.Sprintf("%d multisets of %d %s x all schedules with <=%d preemptions; scheduling points: %s", len(combos), cf.n, class, cf.bound, gran), cf.bound, 0, func(x *X) {
			combo := combos[x.ChooseFree(len(combos))]
			c19Driver(x, info, combo, cf.coarse, cf.syncOnly)
		})
	}
}

// c19Poisoned: a thread torn down at a deadlock died holding a lock of the
// library; package-level state of this process is unusable from then on (the
// next call would wait for that lock for ever). Every later execution of this
// worker reports the same failure instead of running.
var c19Poisoned *fail

func c19Driver(x *X, info *pointTable, combo []int, coarse, syncOnly bool) {
	if c19Poisoned != nil {
		x.fails = append(x.fails, *c19Poisoned)
		return
	}
	sh := newC19Shared(comboBig(combo))
	before := sh.dump()
	var names []string
	var fns []func()
	var results []func() string
	for _, oi := range combo {
		body, res := c19Ops[oi].mk(sh)
		fns = append(fns, body)
		results = append(results, res)
		names = append(names, c19Ops[oi].name)
	}
	cfg := strings.Join(names, "||")
	s := &coSched{x: x, coarseOnly: coarse, syncOnly: syncOnly, info: info}
	s.run(fns)
	x.Validated()
	in := []byte(cfg)
	sched := fmt.Sprintf("preemptions at %s", describePoints(info, s.preempts))
	if s.abort != "" {
		kind := "deadlock"
		if strings.HasPrefix(s.abort, "no progress") {
			kind = "no-progress"
		}
		x.Fail(kind, cfg, in, "%s; %s (not replayed: the torn-down threads may still hold locks of the library, so this worker stops here)", s.abort, sched)
		x.fails[len(x.fails)-1].final = true
		f := x.fails[len(x.fails)-1]
		c19Poisoned = &f
		x.StopExploring()
		return
	}
	for i, t := range s.threads {
		if t.panicVal != nil {
			if fe, ok := t.panicVal.(*mc.FrameworkError); ok {
				panic(fe)
			}
			x.Fail("thread-panicked", cfg, in, "thread %d (%s) panicked: %v; %s", i, names[i], t.panicVal, sched)
			return
		}
	}
	for i, oi := range combo {
		if got, want := results[i](), c19SeqResult(oi); got != want {
			x.Fail("result-differs-from-sequential", cfg, in, "thread %d (%s) produced\n%q\nsequentially it produces\n%q\n%s", i, names[i], got, want, sched)
			return
		}
	}
	if after := sh.dump(); after != before {
		x.Fail("shared-tree-modified", cfg, in, "shared tree changed; %s", sched)
		return
	}
	if len(s.preempts) > 0 {
		x.Nontrivial()
		for _, id := range s.preempts {
			if id >= 0 && id < len(info.pts) {
				switch fn := info.pts[id].Func; {
				case strings.Contains(fn, "filterRaw"), strings.Contains(fn, "maybeLower"), strings.Contains(fn, "Render"), strings.Contains(fn, "processEmphasis"), strings.Contains(fn, "parse"), strings.Contains(fn, "formatWriter"), strings.Contains(fn, "Walk"):
					x.Count("preemptions_in_" + fn)
				}
			}
		}
	}
	x.Max("scheduling_points_per_execution", int64(s.points))
	x.Max("synchronisation_operation_points_per_execution", int64(s.syncPoints))
	// Outcomes: the vector of results (all equal on a correct tree - that is the property).
	h := uint64(0)
	for i := range combo {
		h = h*1099511628211 ^ tree.Hash64(results[i]())
	}
	x.Outcome(h)
	x.Sample(cfg + ": " + sched)
}

func describePoints(info *pointTable, ids []int) string {
	if len(ids) == 0 {
		return "(none)"
	}
	var parts []string
	for _, id := range ids {
		if id <= -10 && -id-10 < len(info.pts) {
			p := info.pts[-id-10]
			parts = append(parts, fmt.Sprintf("sync operation after %s:%d(%s)", p.File, p.Line, p.Func))
		} else if id >= 0 && id < len(info.pts) {
			p := info.pts[id]
			parts = append(parts, fmt.Sprintf("%s:%d(%s)", p.File, p.Line, p.Func))
		} else {
			parts = append(parts, fmt.Sprint(id))
		}
	}
	return strings.Join(parts, ", ")
}

// ---- part 2: free-running race pass ------------------------------------------

// RacePair runs one operation pair as free-running goroutines released by a
// barrier, reps times, in this (fresh) process: the first run meets every
// lazily initialised table, cache or pool cold, which is where unsynchronised
// first-use initialisation shows. Sequential results are only computed
// afterwards. Meant for the -race flavour of the binary; a race makes the
// runtime print a report and exit with GORACE's exit code.
func RacePair(a, b, reps int) (runs int, mismatch string) {
	combo := []int{a, b}
	var got [][]string
	for r := 0; r < reps; r++ {
		sh := newC19Shared(comboBig(combo))
		var wg sync.WaitGroup
		start := make(chan struct{})
		results := make([]func() string, len(combo))
		for i, oi := range combo {
			body, res := c19Ops[oi].mk(sh)
			results[i] = res
			wg.Add(1)
			go func() {
				defer wg.Done()
				<-start
				body()
			}()
		}
		close(start)
		wg.Wait()
		runs++
		row := make([]string, len(combo))
		for i := range combo {
			row[i] = results[i]()
		}
		got = append(got, row)
	}
	for _, row := range got {
		for i, oi := range combo {
			if want := c19SeqResult(oi); row[i] != want && mismatch == "" {
				mismatch = fmt.Sprintf("%s||%s: thread %d produced %q, sequentially %q", c19Ops[a].name, c19Ops[b].name, i, row[i], want)
			}
		}
	}
	return runs, mismatch
}

// RaceCorpus is the wide net of part 2: in a fresh process, g goroutines parse,
// render, format and walk disjoint slices of the CommonMark spec examples at
// the same time (cold start, every construct of the language on some path);
// then every parsed tree is rendered through one shared renderer by two
// goroutines, formatted and walked by two more, all at once. Afterwards
// everything is recomputed sequentially and compared.
func RaceCorpus(g int) (docs int, mismatch string) {
	exs := ref.SpecExamples()
	docs = len(exs)
	type res struct {
		blocks      []*cm.RootBlock
		refs        cm.ReferenceMap
		html, fmted string
	}
	all := make([]res, len(exs))
	one := func(md string) res {
		blocks, refs := cm.Parse([]byte(md))
		h, _ := renderHTML(&cm.HTMLRenderer{ReferenceMap: refs, FilterTag: cm.FilterTagGFM}, blocks)
		var fb, fp bytes.Buffer
		format.Format(&fb, blocks)
		format.Format(onlyWriter{&fp}, blocks) // writer without WriteString
		for _, b := range blocks {
			cm.Walk(b.AsNode(), &cm.WalkOptions{Pre: func(*cm.Cursor) bool { return true }})
		}
		return res{blocks, refs, h, fb.String() + "\x00" + fp.String()}
	}
	var wg sync.WaitGroup
	start := make(chan struct{})
	for w := 0; w < g; w++ {
		wg.Add(1)
		go func() {
			defer wg.Done()
			<-start
			for i := w; i < len(exs); i += g {
				all[i] = one(exs[i].Markdown)
			}
		}()
	}
	close(start)
	wg.Wait()
	note := func(format string, args ...any) {
		if mismatch == "" {
			mismatch = fmt.Sprintf(format, args...)
		}
	}
	// Shared trees.
	for i := range all {
		r := &cm.HTMLRenderer{ReferenceMap: all[i].refs, FilterTag: cm.FilterTagGFM}
		var out [2]string
		var fm string
		var wg sync.WaitGroup
		start := make(chan struct{})
		run := func(f func()) {
			wg.Add(1)
			go func() { defer wg.Done(); <-start; f() }()
		}
		run(func() { out[0], _ = renderHTML(r, all[i].blocks) })
		run(func() { out[1], _ = renderHTML(r, all[i].blocks) })
		run(func() {
			var fb, fp bytes.Buffer
			format.Format(&fb, all[i].blocks)
			format.Format(onlyWriter{&fp}, all[i].blocks)
			fm = fb.String() + "\x00" + fp.String()
		})
		run(func() {
			for _, b := range all[i].blocks {
				cm.Walk(b.AsNode(), &cm.WalkOptions{Post: func(*cm.Cursor) bool { return true }})
			}
		})
		close(start)
		wg.Wait()
		if out[0] != all[i].html || out[1] != all[i].html || fm != all[i].fmted {
			note("spec example %d: concurrent render/format of the shared tree differs from the first result", exs[i].Example)
		}
	}
	// Sequential recomputation.
	for i := range exs {
		s := one(exs[i].Markdown)
		if s.html != all[i].html || s.fmted != all[i].fmted || tree.Dump(s.blocks, s.refs, tree.Full) != tree.Dump(all[i].blocks, all[i].refs, tree.Full) {
			note("spec example %d (%q): result under concurrency differs from the sequential result", exs[i].Example, exs[i].Markdown)
		}
	}
	return docs, mismatch
}

// c19RacePass is the orchestrator-side hook: it runs the race flavour, one
// fresh process per operation pair and one for the corpus.
func c19RacePass(verifDir, tier string) (map[string]any, []Violation, error) {
	bin := os.Getenv("VERIF_RACE_BIN")
	if bin == "" {
		return nil, nil, fmt.Errorf("VERIF_RACE_BIN is not set (./run builds the -race flavour)")
	}
	reps := "10"
	if tier == "thorough" {
		reps = "100"
	}
	type job struct {
		args []string
		out  string
		err  error

		timedOut bool
	}
	var jobs []*job
	for _, big := range []bool{false, true} {
		for _, combo := range c19CombosOf(2, big) {
			jobs = append(jobs, &job{args: []string{"racepair", fmt.Sprint(combo[0]), fmt.Sprint(combo[1]), reps}})
		}
	}
	for _, g := range []string{"2", "8"} {
		jobs = append(jobs, &job{args: []string{"racecorpus", g}})
	}
	sem := make(chan struct{}, 8)
	var wg sync.WaitGroup
	for _, j := range jobs {
		wg.Add(1)
		go func() {
			defer wg.Done()
			sem <- struct{}{}
			defer func() { <-sem }()
			ctx, cancel := context.WithTimeout(context.Background(), 5*time.Minute)
			defer cancel()
			cmd := exec.CommandContext(ctx, bin, j.args...)
			cmd.Env = append(os.Environ(), "GORACE=halt_on_error=1 exitcode=66", "GOMAXPROCS=4")
			var out bytes.Buffer
			cmd.Stdout, cmd.Stderr = &out, &out
			j.err = cmd.Run()
			j.out = out.String()
			if ctx.Err() != nil {
				// Free-running goroutines that never end (a real deadlock between
				// them): not a verdict of this pass - deadlocks are decided by the
				// scheduler exploration of part 1 - but recorded in the evidence.
				j.err = nil
				j.timedOut = true
			}
		}()
	}
	wg.Wait()
	ev := map[string]any{
		"race_pass_processes": len(jobs),
		"race_pass_commands":  fmt.Sprintf("verif-race racepair <i> <j> %s (one fresh process per operation pair, %d pairs); verif-race racecorpus 2|8 (spec examples)", reps, len(jobs)-2),
	}
	var tails []string
	var viol []Violation
	timeouts := 0
	for _, j := range jobs {
		tails = append(tails, lastLines(j.out, 1))
		if j.timedOut {
			timeouts++
		}
		if j.err == nil {
			continue
		}
		ee, ok := j.err.(*exec.ExitError)
		if !ok || (ee.ExitCode() != 66 && ee.ExitCode() != 1) {
			return ev, nil, fmt.Errorf("race pass %v failed to run: %v\n%s", j.args, j.err, truncate(j.out, 2000))
		}
		kind := "data-race"
		if ee.ExitCode() == 1 {
			kind = "free-running-result-differs"
		}
		dir := filepath.Join(verifDir, "replays", "C19")
		os.MkdirAll(dir, 0o755)
		text := "command: verif-race " + strings.Join(j.args, " ") + "\n" + j.out
		path := filepath.Join(dir, fmt.Sprintf("race-%016x.txt", fnv(strings.Join(j.args, " ")+kind)))
		os.WriteFile(path, []byte(text), 0o644)
		if len(viol) < 10 {
			viol = append(viol, Violation{Property: "C19", Exploration: "race-pass", Kind: kind, Config: strings.Join(j.args, " "), Message: truncate(text, 3000), Replay: path, InputQuoted: "(free-running goroutines, " + strings.Join(j.args, " ") + ")", Confirmed: 1})
		}
	}
	ev["race_pass_processes_stopped_after_5min_without_ending"] = timeouts
	ev["race_pass_output_tail"] = truncate(strings.Join(tails[len(tails)-3:], " | "), 600)
	return ev, viol, nil
}

func lastLines(s string, n int) string {
	lines := strings.Split(strings.TrimRight(s, "\n"), "\n")
	if len(lines) > n {
		lines = lines[len(lines)-n:]
	}
	return strings.Join(lines, "\n")
}
