package checks

import (
	"fmt"
	"unicode/utf8"

	"verif/spaces"
	"verif/tree"

	cm "zombiezen.com/go/commonmark"
)

// ---------------------------------------------------------------------------
// C02: spans valid, nested, ordered, on character boundaries.

func init() {
	register(&Check{
		ID:   "C02",
		Rule: "every token sequence up to the stated length over each declared alphabet is parsed once (alphabets are uniquely decodable, so executions are distinct inputs); non-trivial = the parse has a node at depth >= 3 below a root, or >= 2 root blocks, or a non-ASCII / NUL byte in the input",
		Assumptions: []string{
			"trees are observed through the public node API only",
			"bounded scope: alphabets and lengths listed under coverage.explorations",
		},
		Run: func(c *Ctx) {
			c.forPlan(treePlan, func(x *X, in []byte) {
				blocks, _ := cm.Parse(clone(in))
				validUTF8 := utf8.Valid(in)
				x.Validated()
				deep := false
				for _, rb := range blocks {
					if !checkSpans(x, in, rb, validUTF8) {
						break
					}
					if tree.Depth(rb.AsNode()) >= 4 {
						deep = true
					}
				}
				// The same input with CRLF and with CR line endings (the alphabets are
				// written with LF): where a span ends relative to a two-byte line ending.
				for _, v := range eolVariants(in) {
					vb, _ := cm.Parse(clone(v))
					for _, rb := range vb {
						if !checkSpans(x, v, rb, validUTF8) {
							break
						}
					}
					x.Count("inputs_also_as_crlf_or_cr")
				}
				if deep {
					x.Count("inputs_depth_ge3")
				}
				if len(blocks) >= 2 {
					x.Count("inputs_ge2_roots")
				}
				if deep || len(blocks) >= 2 || !isASCII(in) {
					x.Nontrivial()
				}
				x.Outcome(tree.Hash64(tree.Dump(blocks, nil, tree.Spans)))
				x.Sample(q(in))
			})
		},
	})
}

func isASCII(b []byte) bool {
	for _, c := range b {
		if c >= 0x80 || c == 0 {
			return false
		}
	}
	return true
}

func onBoundary(src []byte, i int) bool {
	if i <= 0 || i >= len(src) {
		return true
	}
	return utf8.RuneStart(src[i])
}

// checkSpans checks C02 on one root block; returns false after the first failure.
func checkSpans(x *X, in []byte, rb *cm.RootBlock, validUTF8 bool) bool {
	src := rb.Source
	root := rb.Span()
	if !root.IsValid() || root.End != len(src) {
		x.Fail("root-span-end", "", in, "root span %v does not end at len(Source)=%d", root, len(src))
		return false
	}
	for _, c := range src[:root.Start] {
		if c != ' ' && c != '\t' {
			x.Fail("root-span-prefix", "", in, "root span %v preceded by non-space byte %q in Source %q", root, c, src)
			return false
		}
	}
	ok := true
	var rec func(n cm.Node, parent cm.Span, path string)
	rec = func(n cm.Node, parent cm.Span, path string) {
		if !ok {
			return
		}
		sp := n.Span()
		name := path + "/" + tree.KindName(n)
		if !sp.IsValid() || sp.End > len(src) {
			x.Fail("span-invalid", "", in, "%s span %v invalid for Source of %d bytes", name, sp, len(src))
			ok = false
			return
		}
		if sp.Start < parent.Start || sp.End > parent.End {
			x.Fail("span-outside-parent", "", in, "%s span %v outside parent span %v", name, sp, parent)
			ok = false
			return
		}
		if validUTF8 && (!onBoundary(src, sp.Start) || !onBoundary(src, sp.End)) {
			x.Fail("span-mid-character", "", in, "%s span %v falls inside a multi-byte character of %q", name, sp, src)
			ok = false
			return
		}
		prevEnd := -1
		for i, k := 0, n.ChildCount(); i < k && ok; i++ {
			ch := n.Child(i)
			cs := ch.Span()
			if cs.IsValid() && prevEnd >= 0 && cs.Start < prevEnd {
				x.Fail("sibling-overlap-or-order", "", in, "%s child %d (%s) span %v starts before previous sibling's end %d", name, i, tree.KindName(ch), cs, prevEnd)
				ok = false
				return
			}
			rec(ch, sp, name)
			if cs.IsValid() {
				prevEnd = cs.End
			}
		}
	}
	rec(rb.AsNode(), cm.Span{Start: 0, End: len(src)}, "")
	return ok
}

// ---------------------------------------------------------------------------
// C03: no source text lost or duplicated.

func init() {
	register(&Check{
		ID:   "C03",
		Rule: "every token sequence up to the stated length over each declared alphabet is parsed once; non-trivial = some leaf is not a direct child of a root paragraph, or the block has an ordered list marker, or a construct spans lines",
		Assumptions: []string{
			"leaves = childless inline nodes of the kinds that carry text themselves (Text, RawHTML, CharacterReference, SoftLineBreak, HardLineBreak, Indent; Unparsed, which C05 forbids) and ListMarker blocks, observed through the public API; a container kind without children covers nothing",
		},
		Run: func(c *Ctx) {
			c.forPlan(treePlan, func(x *X, in []byte) {
				blocks, _ := cm.Parse(clone(in))
				x.Validated()
				nontrivial := false
				for _, rb := range blocks {
					nt, ok := checkCover(x, in, rb)
					nontrivial = nontrivial || nt
					if !ok {
						break
					}
				}
				for _, v := range eolVariants(in) {
					vb, _ := cm.Parse(clone(v))
					for _, rb := range vb {
						if _, ok := checkCover(x, v, rb); !ok {
							break
						}
					}
					x.Count("inputs_also_as_crlf_or_cr")
				}
				if nontrivial {
					x.Nontrivial()
				}
				x.Outcome(tree.Hash64(tree.Dump(blocks, nil, tree.Spans)))
				x.Sample(q(in))
			})
		},
	})
}

func checkCover(x *X, in []byte, rb *cm.RootBlock) (nontrivial, ok bool) {
	src := rb.Source
	cover := make([]uint8, len(src))
	ok = true
	mark := func(sp cm.Span, what string) {
		if !sp.IsValid() || sp.End > len(src) {
			// C02's business; cannot be counted.
			return
		}
		for i := sp.Start; i < sp.End; i++ {
			if cover[i] < 3 {
				cover[i]++
			}
		}
	}
	tree.Visit(rb.AsNode(), func(n, parent cm.Node, depth int) {
		if b := n.Block(); b != nil {
			if b.Kind() == cm.ListMarkerKind {
				mark(b.Span(), "marker")
				if sp := b.Span(); sp.IsValid() && sp.End <= len(src) && sp.Len() > 1 {
					nontrivial = true
				}
			}
			return
		}
		if n.ChildCount() == 0 {
			// Only the kinds that carry text themselves cover bytes ("leaves = nodes
			// without children that carry text"): a container left without children
			// (a destination whose text nodes were never collected) covers nothing.
			switch n.Inline().Kind() {
			case cm.TextKind, cm.RawHTMLKind, cm.CharacterReferenceKind, cm.SoftLineBreakKind, cm.HardLineBreakKind, cm.IndentKind, cm.UnparsedKind:
			default:
				return
			}
			mark(n.Span(), "leaf")
			if depth > 2 || (parent.Block() != nil && parent.Block().Kind() != cm.ParagraphKind) {
				nontrivial = true
			}
		}
	})
	for i, c := range src {
		if cover[i] > 1 {
			x.Fail("byte-covered-twice", "", in, "byte %d (%q) of Source %q is covered by more than one leaf", i, c, src)
			return nontrivial, false
		}
		textual := c >= 0x80 || ('0' <= c && c <= '9') || ('a' <= c && c <= 'z') || ('A' <= c && c <= 'Z')
		if textual && cover[i] == 0 {
			x.Fail("text-byte-uncovered", "", in, "byte %d (%q) of Source %q is covered by no leaf", i, c, src)
			return nontrivial, false
		}
	}
	return nontrivial, ok
}

// ---------------------------------------------------------------------------
// C05: node grammar.

var phrasing = map[cm.InlineKind]bool{
	cm.TextKind: true, cm.SoftLineBreakKind: true, cm.HardLineBreakKind: true, cm.IndentKind: true,
	cm.CharacterReferenceKind: true, cm.EmphasisKind: true, cm.StrongKind: true, cm.LinkKind: true,
	cm.ImageKind: true, cm.CodeSpanKind: true, cm.AutolinkKind: true, cm.HTMLTagKind: true,
}

func init() {
	register(&Check{
		ID:   "C05",
		Rule: "every token sequence up to the stated length over each declared alphabet is parsed through Parse and through NextBlock+Extract+Rewrite; non-trivial = the tree contains a list, a link/image, a reference definition, a code block or an HTML block",
		Assumptions: []string{
			"the grammar checked is exactly the clauses of the property statement, read through the public accessors",
		},
		Run: func(c *Ctx) {
			c.forPlan(treePlan, func(x *X, in []byte) {
				blocks, _ := cm.Parse(clone(in))
				x.Validated()
				nt := false
				for _, rb := range blocks {
					if checkGrammar(x, in, rb, "parse", &nt) {
						break
					}
				}
				sblocks, _, _ := parseStream(in)
				for _, rb := range sblocks {
					if checkGrammar(x, in, rb, "stream", &nt) {
						break
					}
				}
				for _, v := range eolVariants(in) {
					vb, _ := cm.Parse(clone(v))
					for _, rb := range vb {
						if checkGrammar(x, v, rb, "parse/eol-variant", &nt) {
							break
						}
					}
					x.Count("inputs_also_as_crlf_or_cr")
				}
				if nt {
					x.Nontrivial()
				}
				x.Outcome(tree.Hash64(tree.Dump(blocks, nil, 0)))
				x.Sample(q(in))
			})
		},
	})
}

// checkGrammar returns true if it reported a failure.
func checkGrammar(x *X, in []byte, rb *cm.RootBlock, cfg string, nontrivial *bool) (failed bool) {
	src := rb.Source
	fail := func(kind, format string, args ...any) {
		if !failed {
			x.Fail(kind, cfg, in, format, args...)
		}
		failed = true
	}
	switch rb.Kind() {
	case cm.ListItemKind, cm.ListMarkerKind, 0:
		fail("root-kind", "root block of kind %v", rb.Kind())
	}
	var inlineRec func(in *cm.Inline, insideLink bool, path string)
	checkPhrasingChildren := func(kids []*cm.Inline, path string) {
		for _, k := range kids {
			if !phrasing[k.Kind()] {
				fail("non-phrasing-child", "%s holds inline of kind %v", path, k.Kind())
			}
		}
	}
	kidsOf := func(n *cm.Inline) []*cm.Inline {
		out := make([]*cm.Inline, n.ChildCount())
		for i := range out {
			out[i] = n.Child(i)
		}
		return out
	}
	inlineRec = func(n *cm.Inline, insideLink bool, path string) {
		if failed {
			return
		}
		path = path + "/" + n.Kind().String()
		kids := kidsOf(n)
		for i, k := range kids {
			if k == nil || k.Kind() == 0 {
				fail("nil-child", "%s: child %d of %d is nil or has no kind", path, i, len(kids))
				return
			}
		}
		switch n.Kind() {
		case cm.UnparsedKind:
			fail("unparsed-remains", "%s: unparsed node remains", path)
		case cm.LinkKind, cm.ImageKind:
			*nontrivial = true
			if n.Kind() == cm.LinkKind {
				if insideLink {
					fail("link-in-link", "%s: link inside a link", path)
				}
				insideLink = true
			}
			// Tail: at most [destination][title] or one label.
			tail := len(kids)
			for tail > 0 {
				k := kids[tail-1].Kind()
				if k == cm.LinkDestinationKind || k == cm.LinkTitleKind || k == cm.LinkLabelKind {
					tail--
				} else {
					break
				}
			}
			tk := ""
			for _, k := range kids[tail:] {
				switch k.Kind() {
				case cm.LinkDestinationKind:
					tk += "D"
				case cm.LinkTitleKind:
					tk += "T"
				case cm.LinkLabelKind:
					tk += "L"
				}
			}
			switch tk {
			case "", "D", "T", "DT", "L":
			default:
				fail("link-tail", "%s: link/image ends in %q (allowed: nothing, D, T, DT, L)", path, tk)
			}
			checkPhrasingChildren(kids[:tail], path)
			if n.LinkReference() != "" && (n.LinkDestination() != nil || n.LinkTitle() != nil) {
				fail("reference-link-with-destination", "%s: LinkReference()=%q but destination/title present", path, n.LinkReference())
			}
		case cm.EmphasisKind, cm.StrongKind:
			checkPhrasingChildren(kids, path)
		}
		for _, k := range kids {
			inlineRec(k, insideLink, path)
		}
	}
	var blockRec func(b *cm.Block, path string)
	blockRec = func(b *cm.Block, path string) {
		if failed {
			return
		}
		k := b.Kind()
		path = path + "/" + k.String()
		// Accessors.
		hl := b.HeadingLevel()
		switch k {
		case cm.ATXHeadingKind:
			if hl < 1 || hl > 6 {
				fail("heading-level", "%s: ATX heading level %d", path, hl)
			}
		case cm.SetextHeadingKind:
			if hl < 1 || hl > 2 {
				fail("heading-level", "%s: setext heading level %d", path, hl)
			}
		default:
			if hl != 0 {
				fail("heading-level", "%s: HeadingLevel()=%d on a non-heading", path, hl)
			}
		}
		num := b.ListItemNumber(src)
		if k == cm.ListItemKind && b.IsOrderedList() {
			if num < 0 || num > 999999999 {
				fail("item-number", "%s: ordered item number %d", path, num)
			}
		} else if num != -1 {
			fail("item-number", "%s: ListItemNumber()=%d on a block that is not an ordered item", path, num)
		}
		info := b.InfoString()
		hasInfoFirst := b.ChildCount() > 0 && b.Child(0).Inline() != nil && b.Child(0).Inline().Kind() == cm.InfoStringKind
		if (info != nil) != (k == cm.FencedCodeBlockKind && hasInfoFirst) {
			fail("info-string-accessor", "%s: InfoString()!=nil is %v but fenced-with-info-first is %v", path, info != nil, k == cm.FencedCodeBlockKind && hasInfoFirst)
		}
		n := b.ChildCount()
		var blockKids []*cm.Block
		var inlineKids []*cm.Inline
		for i := 0; i < n; i++ {
			ch := b.Child(i)
			if cb := ch.Block(); cb != nil {
				blockKids = append(blockKids, cb)
			} else if ci := ch.Inline(); ci != nil {
				inlineKids = append(inlineKids, ci)
			} else {
				fail("nil-child", "%s: child %d is nil", path, i)
			}
		}
		switch k {
		case cm.ListKind:
			*nontrivial = true
			for i, cb := range blockKids {
				if cb.Kind() != cm.ListItemKind {
					fail("list-child", "%s: child %d is %v", path, i, cb.Kind())
				} else {
					if cb.IsOrderedList() != b.IsOrderedList() {
						fail("list-item-ordered-disagree", "%s: list ordered=%v item %d ordered=%v", path, b.IsOrderedList(), i, cb.IsOrderedList())
					}
					if cb.IsTightList() != b.IsTightList() {
						fail("list-item-tight-disagree", "%s: list tight=%v item %d tight=%v", path, b.IsTightList(), i, cb.IsTightList())
					}
				}
			}
			if len(inlineKids) > 0 {
				fail("list-child", "%s: list holds inline children", path)
			}
		case cm.ListItemKind:
			if len(blockKids) == 0 || blockKids[0].Kind() != cm.ListMarkerKind || b.Child(0).Block() == nil {
				fail("item-without-marker", "%s: first child is not a list marker", path)
			}
		case cm.LinkReferenceDefinitionKind:
			*nontrivial = true
			kinds := ""
			for _, ci := range inlineKids {
				switch ci.Kind() {
				case cm.LinkLabelKind:
					kinds += "L"
				case cm.LinkDestinationKind:
					kinds += "D"
				case cm.LinkTitleKind:
					kinds += "T"
				default:
					kinds += "?"
				}
			}
			if len(blockKids) > 0 || (kinds != "LD" && kinds != "LDT") {
				fail("refdef-shape", "%s: children are %q (want LD or LDT)", path, kinds)
			}
		case cm.ParagraphKind, cm.ATXHeadingKind, cm.SetextHeadingKind:
			if len(blockKids) > 0 {
				fail("leaf-block-with-block-children", "%s holds block children", path)
			}
			checkPhrasingChildren(inlineKids, path)
		case cm.IndentedCodeBlockKind, cm.FencedCodeBlockKind:
			*nontrivial = true
			if len(blockKids) > 0 {
				fail("leaf-block-with-block-children", "%s holds block children", path)
			}
			for i, ci := range inlineKids {
				switch ci.Kind() {
				case cm.TextKind, cm.IndentKind, cm.SoftLineBreakKind:
				case cm.InfoStringKind:
					if i != 0 || k != cm.FencedCodeBlockKind {
						fail("info-string-position", "%s: info string at child %d", path, i)
					}
				default:
					fail("code-block-child", "%s: child %d is %v", path, i, ci.Kind())
				}
			}
		case cm.HTMLBlockKind:
			*nontrivial = true
			if len(blockKids) > 0 {
				fail("leaf-block-with-block-children", "%s holds block children", path)
			}
			for i, ci := range inlineKids {
				if ci.Kind() != cm.RawHTMLKind && ci.Kind() != cm.IndentKind {
					fail("html-block-child", "%s: child %d is %v", path, i, ci.Kind())
				}
			}
		}
		for _, ci := range inlineKids {
			inlineRec(ci, false, path)
		}
		for _, cb := range blockKids {
			blockRec(cb, path)
		}
	}
	p, val := Protect(func() { blockRec(&rb.Block, "") })
	if p {
		fail("accessor-panic", "accessor panicked on the tree: %v", val)
	}
	return failed
}

// ---------------------------------------------------------------------------
// C13: span shapes.

func init() {
	register(&Check{
		ID:   "C13",
		Rule: "every token sequence up to the stated length over each declared alphabet is parsed once; non-trivial = the tree contains at least one node of a kind the property constrains (emphasis, strong, code span, link, image, autolink, HTML tag, character reference, hard break, list marker, ATX/setext heading, fenced code, block quote)",
		Assumptions: []string{
			"hard break by backslash: the span may or may not include the line ending (the statement allows both readings)",
		},
		Run: func(c *Ctx) {
			drv := func(x *X, in []byte) {
				blocks, _ := cm.Parse(clone(in))
				x.Validated()
				nt := false
				for _, rb := range blocks {
					if checkShapes(x, in, rb, &nt) {
						break
					}
				}
				for _, v := range eolVariants(in) {
					vb, _ := cm.Parse(clone(v))
					for _, rb := range vb {
						if checkShapes(x, v, rb, &nt) {
							break
						}
					}
					x.Count("inputs_also_as_crlf_or_cr")
				}
				if nt {
					x.Nontrivial()
				}
				x.Outcome(tree.Hash64(tree.Dump(blocks, nil, tree.Spans)))
				x.Sample(q(in))
			}
			c.forPlan(treePlan, drv)
			// Emphasis spans come from shrinking delimiter nodes over several
			// matches; the interesting cases (a closer run used twice) need more
			// symbols than the general alphabets reach.
			c.Inputs(spaces.Emph4, c.Pick(11, 13), drv)
			if !c.Thorough() {
				c.Inputs(spaces.XDRuns, 6, drv) // one token deeper than the shared plan's quick tier
			}
		},
	})
}

func trimEOL(s []byte) []byte {
	if n := len(s); n >= 2 && s[n-2] == '\r' && s[n-1] == '\n' {
		return s[:n-2]
	}
	if n := len(s); n >= 1 && (s[n-1] == '\n' || s[n-1] == '\r') {
		return s[:n-1]
	}
	return s
}

func leadingRun(s []byte, c byte) int {
	n := 0
	for n < len(s) && s[n] == c {
		n++
	}
	return n
}

func trailingRun(s []byte, c byte) int {
	n := 0
	for n < len(s) && s[len(s)-1-n] == c {
		n++
	}
	return n
}

func checkShapes(x *X, in []byte, rb *cm.RootBlock, nontrivial *bool) (failed bool) {
	src := rb.Source
	fail := func(kind string, n cm.Node, text []byte, want string) {
		if !failed {
			x.Fail(kind, "", in, "%s span %v selects %q: %s", tree.KindName(n), n.Span(), text, want)
		}
		failed = true
	}
	tree.Visit(rb.AsNode(), func(n, parent cm.Node, depth int) {
		if failed {
			return
		}
		sp := n.Span()
		if !sp.IsValid() || sp.End > len(src) {
			return // C02
		}
		t := src[sp.Start:sp.End]
		if b := n.Block(); b != nil {
			switch b.Kind() {
			case cm.ListMarkerKind:
				*nontrivial = true
				okm := false
				if len(t) == 1 && (t[0] == '-' || t[0] == '+' || t[0] == '*') {
					okm = true
				} else if len(t) >= 2 && len(t) <= 10 && (t[len(t)-1] == '.' || t[len(t)-1] == ')') {
					okm = true
					for _, c := range t[:len(t)-1] {
						if c < '0' || c > '9' {
							okm = false
						}
					}
				}
				if !okm {
					fail("list-marker-shape", n, t, "want a bullet or 1-9 digits plus . or )")
				}
			case cm.ATXHeadingKind:
				*nontrivial = true
				l := b.HeadingLevel()
				if leadingRun(t, '#') != l {
					fail("atx-shape", n, t, fmt.Sprintf("want exactly %d leading #", l))
				}
			case cm.SetextHeadingKind:
				*nontrivial = true
				want := byte('=')
				if b.HeadingLevel() == 2 {
					want = '-'
				}
				u := t
				for len(u) > 0 && isWS(u[len(u)-1]) {
					u = u[:len(u)-1]
				}
				if len(u) == 0 || u[len(u)-1] != want {
					fail("setext-shape", n, t, fmt.Sprintf("want the span to end in a %q underline", want))
					break
				}
				// The last line must consist of the underline character only.
				ls := len(u)
				for ls > 0 && u[ls-1] != '\n' && u[ls-1] != '\r' {
					ls--
				}
				line := u[ls:]
				for len(line) > 0 && (line[0] == ' ' || line[0] == '\t') {
					line = line[1:]
				}
				// Inside containers the line carries the container prefix; accept
				// any prefix that ends before the run of underline characters.
				run := trailingRun(line, want)
				if run == 0 {
					fail("setext-shape", n, t, "underline line has no underline characters")
				}
			case cm.FencedCodeBlockKind:
				*nontrivial = true
				if !(leadingRun(t, '`') >= 3 || leadingRun(t, '~') >= 3) {
					fail("fence-shape", n, t, "want the span to start with its fence")
				}
			case cm.BlockQuoteKind:
				*nontrivial = true
				if len(t) == 0 || t[0] != '>' {
					fail("quote-shape", n, t, "want the span to start with >")
				}
			}
			return
		}
		i := n.Inline()
		switch i.Kind() {
		case cm.EmphasisKind:
			*nontrivial = true
			if len(t) < 2 || (t[0] != '*' && t[0] != '_') || t[len(t)-1] != t[0] {
				fail("emphasis-shape", n, t, "want c...c with c in * _")
			}
		case cm.StrongKind:
			*nontrivial = true
			if len(t) < 4 || (t[0] != '*' && t[0] != '_') || t[1] != t[0] || t[len(t)-1] != t[0] || t[len(t)-2] != t[0] {
				fail("strong-shape", n, t, "want cc...cc with c in * _")
			}
		case cm.CodeSpanKind:
			*nontrivial = true
			a, b := leadingRun(t, '`'), trailingRun(t, '`')
			if a == 0 || a != b || len(t) < 2*a+1 {
				fail("code-span-shape", n, t, "want equal-length backtick strings at both ends")
			}
		case cm.LinkKind:
			*nontrivial = true
			if len(t) < 2 || t[0] != '[' || (t[len(t)-1] != ']' && t[len(t)-1] != ')') {
				fail("link-shape", n, t, "want [ ... ] or )")
			}
		case cm.ImageKind:
			*nontrivial = true
			if len(t) < 3 || t[0] != '!' || t[1] != '[' || (t[len(t)-1] != ']' && t[len(t)-1] != ')') {
				fail("image-shape", n, t, "want ![ ... ] or )")
			}
		case cm.AutolinkKind, cm.HTMLTagKind:
			*nontrivial = true
			if len(t) < 2 || t[0] != '<' || t[len(t)-1] != '>' {
				fail("angle-shape", n, t, "want <...>")
			}
		case cm.CharacterReferenceKind:
			*nontrivial = true
			if len(t) < 3 || t[0] != '&' || t[len(t)-1] != ';' {
				fail("charref-shape", n, t, "want &...;")
			}
		case cm.HardLineBreakKind:
			*nontrivial = true
			body := trimEOL(t)
			hadEOL := len(body) != len(t)
			okh := false
			if len(body) == 1 && body[0] == '\\' {
				okh = true
			} else if hadEOL && len(body) >= 2 && leadingRun(body, ' ') == len(body) {
				okh = true
			}
			if !okh {
				fail("hard-break-shape", n, t, "want a backslash, or 2+ spaces with the line ending")
			}
		}
	})
	return failed
}
