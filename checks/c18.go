package checks

import (
	"fmt"
	"strconv"
	"strings"

	"verif/spaces"
	"verif/tree"

	cm "zombiezen.com/go/commonmark"
)

// ---------------------------------------------------------------------------
// C18: Walk visits every node once, in order, honouring pruning and abort.

// walkView is a child view handed to Walk (and to the reference traversal).
type walkView struct {
	name               string
	count              func(cm.Node) int
	child              func(cm.Node, int) cm.Node
	setCount, setChild bool // which of the two WalkOptions fields are non-nil
}

func c18Views(blocks []*cm.RootBlock) []walkView {
	def := walkView{name: "default", count: cm.Node.ChildCount, child: cm.Node.Child}
	rev := walkView{name: "reversed", setCount: true, setChild: true,
		count: cm.Node.ChildCount,
		child: func(n cm.Node, i int) cm.Node { return n.Child(n.ChildCount() - 1 - i) }}
	hide := walkView{name: "first-child-hidden", setCount: true, setChild: true,
		count: func(n cm.Node) int { return max(n.ChildCount()-1, 0) },
		child: func(n cm.Node, i int) cm.Node { return n.Child(i + 1) }}
	virt := walkView{name: "virtual-root", setCount: true, setChild: true,
		count: func(n cm.Node) int {
			if n == (cm.Node{}) {
				return len(blocks)
			}
			return n.ChildCount()
		},
		child: func(n cm.Node, i int) cm.Node {
			if n == (cm.Node{}) {
				return blocks[i].AsNode()
			}
			return n.Child(i)
		}}
	onlyChild := walkView{name: "only-Child-set(reversed)", setChild: true,
		count: cm.Node.ChildCount,
		child: func(n cm.Node, i int) cm.Node { return n.Child(n.ChildCount() - 1 - i) }}
	onlyCount := walkView{name: "only-ChildCount-set(last-hidden)", setCount: true,
		count: func(n cm.Node) int { return max(n.ChildCount()-1, 0) },
		child: cm.Node.Child}
	return []walkView{def, virt, rev, hide, onlyChild, onlyCount}
}

type walkEvent struct {
	post   bool
	node   cm.Node
	parent cm.Node
	index  int
	block  *cm.Block
	ret    bool
}

func init() {
	register(&Check{
		ID:   "C18",
		Rule: "for every parsed tree from the stated input spaces (one root block, or a virtual root over all root blocks): Pre nil or not x Post nil or not x 6 child views x the return value of Pre at every call (all prune sets when the walked tree has <= 10 nodes, otherwise within the deviation bound) x abort at any one Post call, each followed by a second complete walk of the same tree that must equal the reference traversal; plus wide and deep trees (31..257 children or levels) with one pruned node or abort anywhere; each execution is one complete callback policy; non-trivial = at least one node pruned or an abort, on a tree of >= 4 nodes",
		Assumptions: []string{
			"walks start at a root block or at a virtual root (zero Node) presented through custom child functions, as format.Format does",
			"the reference is the obvious recursive traversal replaying the same callback decisions",
		},
		Run: func(c *Ctx) {
			plan := []planEntry{{spaces.L, 2, 2}, {spaces.I, 3, 4}, {spaces.XList, 3, 4}, {spaces.XLink, 3, 4}}
			bound := c.Pick(2, 3)
			for _, p := range plan {
				sp := p.sp
				n := c.Pick(p.quick, p.thorough)
				c.Explore(sp.Name, fmt.Sprintf("trees of inputs of <=%d tokens over %s x all callback policies", n, sp.Name), bound, n, func(x *X) {
					in := x.Tokens(sp, n)
					c18Driver(x, in)
				})
			}
			// Wide and deep trees: child counts and depths around powers of two
			// (where a traversal stack or frame buffer would grow or wrap).
			ks := []int{32, 33, 65, 129}
			if c.Thorough() {
				ks = []int{31, 32, 33, 34, 63, 64, 65, 66, 127, 128, 129, 130, 257}
			}
			shapes := []struct{ name, unit, tail string }{{"paragraph lines", "a\n", ""}, {"list items", "- a\n", ""}, {"root blocks", "a\n\n", ""}, {"nested quotes", "> ", "a\n"}, {"emphasis siblings", "*a* ", "\n"}}
			c.Explore("wide-and-deep", fmt.Sprintf("documents made of k repetitions of a unit (%d shapes: paragraph lines, list items, root blocks, nested quotes, emphasis siblings), k in %v, x views x callback policies within the deviation bound (one pruned node or abort anywhere)", len(shapes), ks), 1, 0, func(x *X) {
				sh := shapes[x.ChooseFree(len(shapes))]
				k := ks[x.ChooseFree(len(ks))]
				c18Walk(x, []byte(strings.Repeat(sh.unit, k)+sh.tail), 1<<20)
			})
		},
	})
}

func c18Driver(x *X, in []byte) { c18Walk(x, in, 40) }

func c18Walk(x *X, in []byte, maxNodes int) {
	blocks, _ := cm.Parse(clone(in))
	if len(blocks) == 0 {
		return
	}
	views := c18Views(blocks)
	vi := x.ChooseFree(len(views))
	view := views[vi]
	var root cm.Node
	total := 0
	if view.name == "virtual-root" {
		root = cm.Node{}
		total = 1
		for _, b := range blocks {
			total += tree.Count(b.AsNode())
		}
	} else {
		bi := 0
		if len(blocks) > 1 {
			bi = x.ChooseFree(len(blocks))
		}
		root = blocks[bi].AsNode()
		total = tree.Count(root)
	}
	if total > maxNodes {
		x.Count("trees_skipped_over_40_nodes")
		return
	}
	mode := x.ChooseFree(3) // 0: Pre+Post, 1: Pre only, 2: Post only
	hasPre, hasPost := mode != 2, mode != 1
	free := total <= 10

	var got []walkEvent
	aborted := false
	afterAbort := 0
	pruned := 0
	cursorBad := ""
	checkCursor := func(cur *cm.Cursor, what string) {
		if cursorBad != "" {
			return
		}
		n, p, i := cur.Node(), cur.Parent(), cur.Index()
		if i < 0 {
			if n != root || p != (cm.Node{}) {
				cursorBad = fmt.Sprintf("%s: negative index %d on a callback that is not the root's (node==root:%v parent-zero:%v)", what, i, n == root, p == (cm.Node{}))
			}
			return
		}
		if p == (cm.Node{}) && view.name != "virtual-root" {
			cursorBad = fmt.Sprintf("%s: zero parent with index %d", what, i)
			return
		}
		if i >= view.count(p) {
			cursorBad = fmt.Sprintf("%s: index %d out of range for parent with %d children in view %s", what, i, view.count(p), view.name)
			return
		}
		if view.child(p, i) != n {
			cursorBad = fmt.Sprintf("%s: view.Child(Parent, Index=%d) != Node", what, i)
		}
	}
	opts := &cm.WalkOptions{}
	if hasPre {
		opts.Pre = func(cur *cm.Cursor) bool {
			if aborted {
				afterAbort++
			}
			checkCursor(cur, "Pre")
			ret := true
			var ch int
			if free {
				ch = x.ChooseFree(2)
			} else {
				ch = x.Choose(2)
			}
			if ch == 1 {
				ret = false
				pruned++
			}
			got = append(got, walkEvent{false, cur.Node(), cur.Parent(), cur.Index(), cur.ParentBlock(), ret})
			return ret
		}
	}
	if hasPost {
		opts.Post = func(cur *cm.Cursor) bool {
			if aborted {
				afterAbort++
			}
			checkCursor(cur, "Post")
			ret := true
			if x.Choose(2) == 1 {
				ret = false
				aborted = true
			}
			got = append(got, walkEvent{true, cur.Node(), cur.Parent(), cur.Index(), cur.ParentBlock(), ret})
			return ret
		}
	}
	if view.setCount {
		opts.ChildCount = view.count
	}
	if view.setChild {
		opts.Child = view.child
	}
	cfg := fmt.Sprintf("view=%s pre=%v post=%v root=%d", view.name, hasPre, hasPost, total)
	if p, val := Protect(func() { cm.Walk(root, opts) }); p {
		x.Fail("walk-panicked", cfg, in, "Walk panicked: %v", val)
		return
	}
	x.Validated()

	// Reference traversal replaying the recorded decisions.
	var want []walkEvent
	di := 0
	next := func(post bool) (bool, bool) {
		for di < len(got) {
			e := got[di]
			di++
			if e.post == post {
				return e.ret, true
			}
			// decision of the other kind consumed out of order: traces differ
			return true, false
		}
		return true, true // implementation made fewer calls; defaults
	}
	stop := false
	var rec func(n, parent cm.Node, index int, block *cm.Block)
	rec = func(n, parent cm.Node, index int, block *cm.Block) {
		if stop {
			return
		}
		if hasPre {
			ret, _ := next(false)
			want = append(want, walkEvent{false, n, parent, index, block, ret})
			if !ret {
				return
			}
		}
		cb := block
		if b := n.Block(); b != nil {
			cb = b
		}
		for i, k := 0, view.count(n); i < k; i++ {
			rec(view.child(n, i), n, i, cb)
			if stop {
				return
			}
		}
		if hasPost {
			ret, _ := next(true)
			want = append(want, walkEvent{true, n, parent, index, block, ret})
			if !ret {
				stop = true
			}
		}
	}
	rec(root, cm.Node{}, -1, nil)

	ids := map[cm.Node]int{}
	var number func(n cm.Node)
	number = func(n cm.Node) {
		ids[n] = len(ids)
		for i, k := 0, n.ChildCount(); i < k; i++ {
			number(n.Child(i))
		}
	}
	if root == (cm.Node{}) {
		ids[root] = -1
		for _, b := range blocks {
			number(b.AsNode())
		}
	} else {
		number(root)
	}
	show := func(evs []walkEvent) string {
		var out []byte
		for _, e := range evs {
			if e.post {
				out = append(out, "post "...)
			} else {
				out = append(out, "pre "...)
			}
			out = append(out, 'n')
			out = strconv.AppendInt(out, int64(ids[e.node]), 10)
			out = append(out, " p"...)
			if e.parent == (cm.Node{}) {
				out = append(out, '-')
			} else {
				out = strconv.AppendInt(out, int64(ids[e.parent]), 10)
			}
			out = append(out, " i"...)
			idx := e.index
			if idx < 0 {
				idx = -1
			}
			out = strconv.AppendInt(out, int64(idx), 10)
			out = append(out, " b"...)
			if e.block == nil {
				out = append(out, '-')
			} else {
				out = strconv.AppendInt(out, int64(ids[e.block.AsNode()]), 10)
			}
			if !e.ret {
				out = append(out, " =false"...)
			}
			out = append(out, "; "...)
		}
		return string(out)
	}
	gs, ws := show(got), show(want)
	if cursorBad != "" {
		x.Fail("cursor-invariant", cfg, in, "%s (trace so far: %s)", cursorBad, gs)
		return
	}
	if afterAbort > 0 {
		x.Fail("callback-after-abort", cfg, in, "%d callbacks after Post returned false; trace: %s", afterAbort, gs)
		return
	}
	if gs != ws {
		x.Fail("trace-differs", cfg, in, "Walk trace:\n%s\nreference trace:\n%s", gs, ws)
		return
	}
	// A second, complete walk of the same tree right after the first one (which
	// may have been pruned or aborted half-way): Walk keeps nothing between calls.
	var got2, want2 []walkEvent
	opts2 := &cm.WalkOptions{ChildCount: opts.ChildCount, Child: opts.Child,
		Pre: func(cur *cm.Cursor) bool {
			got2 = append(got2, walkEvent{false, cur.Node(), cur.Parent(), cur.Index(), cur.ParentBlock(), true})
			return true
		},
		Post: func(cur *cm.Cursor) bool {
			got2 = append(got2, walkEvent{true, cur.Node(), cur.Parent(), cur.Index(), cur.ParentBlock(), true})
			return true
		}}
	if p, val := Protect(func() { cm.Walk(root, opts2) }); p {
		x.Fail("walk-panicked", cfg, in, "second Walk of the same tree panicked: %v", val)
		return
	}
	var rec2 func(n, parent cm.Node, index int, block *cm.Block)
	rec2 = func(n, parent cm.Node, index int, block *cm.Block) {
		want2 = append(want2, walkEvent{false, n, parent, index, block, true})
		cb := block
		if b := n.Block(); b != nil {
			cb = b
		}
		for i, k := 0, view.count(n); i < k; i++ {
			rec2(view.child(n, i), n, i, cb)
		}
		want2 = append(want2, walkEvent{true, n, parent, index, block, true})
	}
	rec2(root, cm.Node{}, -1, nil)
	if g2, w2 := show(got2), show(want2); g2 != w2 {
		x.Fail("second-walk-differs", cfg, in, "a complete Walk of the same tree after the first walk (trace %s) gave\n%s\nreference:\n%s", truncate(gs, 300), truncate(g2, 1500), truncate(w2, 1500))
		return
	}
	if total >= 4 && (pruned > 0 || aborted) {
		x.Nontrivial()
	}
	if pruned > 0 {
		x.Count("walks_with_pruning")
	}
	if aborted {
		x.Count("walks_aborted")
	}
	x.Count("view_" + view.name)
	x.Outcome(tree.Hash64(gs) ^ tree.HashBytes(in))
	x.Sample(q(in) + " " + cfg + " trace: " + truncate(gs, 200))
}

func truncate(s string, n int) string {
	if len(s) > n {
		return s[:n] + "..."
	}
	return s
}
