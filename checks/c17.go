package checks

import (
	"fmt"
	"strings"

	"verif/ref"
	"verif/spaces"
	"verif/tree"

	cm "zombiezen.com/go/commonmark"
)

// ---------------------------------------------------------------------------
// C17: tag filtering only escapes '<' and leaves no filtered element openable.

var rawTextNames = []string{"script", "style", "title", "textarea", "xmp", "iframe", "noembed", "noframes", "plaintext"}

var c17Filters = []filterPred{
	{"GFM", cm.FilterTagGFM},
	{"reject-all", func([]byte) bool { return true }},
	{"reject-none", func([]byte) bool { return false }},
	{"rawtext+b", nameSet(append([]string{"b"}, rawTextNames...)...)},
	{"rawtext+div+a", nameSet(append([]string{"div", "a"}, rawTextNames...)...)},
}

// c17Rejected is the oracle's idea of what predicate fp rejects. For the
// checker's own predicates that is the predicate; for the library's GFM
// predicate it is the list of nine raw-text elements in the property statement
// (the library's function must not be its own judge).
func c17Rejected(fp filterPred, name string) bool {
	if fp.name == "GFM" {
		for _, n := range rawTextNames {
			if n == name {
				return true
			}
		}
		return false
	}
	return fp.f([]byte(name))
}

// XHTML3 works at tag granularity, so that five tokens reach "tag with a
// stray quote / quoted attribute, then a rejected tag".
var spXHTML3 = spaces.Space{Name: "X-html3", Doc: "whole tag openers (inline-only name b, block-level name p, rejected names), attribute shapes with matched and stray quotes, closers", Tokens: []string{"<b", "<p", "<script", "<XMP", ">", " \"", " '", " x=\"y\"", " x='>'", "</b>", "/", " ", "\n", "<!--", "-->", "a"}}

// XHTML2 complements X-html with quoting, upper case and attribute shapes.
var spXHTML2 = spaces.Space{Name: "X-html2", Doc: "tags with quotes, upper case, attributes, nested markers", Tokens: []string{"<", ">", "/", "script", "SCRIPT", "b", " ", "\n", "'", "\"", "=", "-", "!", "x"}}

func init() {
	spaces.All = append(spaces.All, spXHTML2, spXHTML3)
	register(&Check{
		ID:   "C17",
		Rule: "every token sequence up to the stated length over the raw-HTML alphabets, placed in three contexts (as is, inside a paragraph after 'a ', inside a block quote), and over the inline alphabet, rendered with IgnoreRaw=false under 5 predicates x 2 soft-break behaviours; non-trivial = the unfiltered output contains '<' outside renderer-generated tags (raw HTML reached the output) and some predicate changed the output",
		Assumptions: []string{
			"tokenizer: WHATWG data-state family only, no tree construction (ref.StartTags), self-tested against x/net/html's tokenizer and hand-written cases",
			"predicates: GFM (judged against the nine element names listed in the statement, not against the library's own function), reject-all, reject-none, two name sets containing the raw-text elements",
		},
		SelfTest: ref.WhatwgSelfTest,
		Run: func(c *Ctx) {
			ctxs := []struct{ name, prefix string }{{"block", ""}, {"para", "a "}, {"quote", "> "}}
			for _, p := range []planEntry{{spaces.XHTML, 5, 6}, {spXHTML2, 5, 6}, {spXHTML3, 5, 6}} {
				sp := p.sp
				n := c.Pick(p.quick, p.thorough)
				c.Explore(sp.Name, fmt.Sprintf("all inputs of <=%d tokens over %s x 3 contexts: %s", n, sp.Name, sp.Doc), -1, n, func(x *X) {
					body := x.Tokens(sp, n)
					cx := ctxs[x.ChooseFree(len(ctxs))]
					c17Driver(x, append([]byte(cx.prefix), body...))
				})
			}
			c.Inputs(spaces.I, c.Pick(4, 5), c17Driver)
			// Every raw-text element of the statement, in every letter-case pattern
			// that matters, in every tag shape and context.
			shapes := []string{"<%s>", "<%s x>", "<%s/>", "<%s\n>", "</%s><%s>", "<b><%s>", "<%s x=\"<%s>\">", "<!-- --><%s>", "<%s", "<%s>x</%s>"}
			cases := []func(string) string{
				func(n string) string { return n },
				strings.ToUpper,
				func(n string) string { return strings.ToUpper(n[:1]) + n[1:] },
				func(n string) string { return n[:len(n)-1] + strings.ToUpper(n[len(n)-1:]) },
			}
			c.Explore("raw-text-names", fmt.Sprintf("the %d raw-text element names of the statement x %d letter-case patterns x %d tag shapes x 3 contexts", len(rawTextNames), len(cases), len(shapes)), -1, 0, func(x *X) {
				name := cases[x.ChooseFree(len(cases))](rawTextNames[x.ChooseFree(len(rawTextNames))])
				shape := shapes[x.ChooseFree(len(shapes))]
				cx := ctxs[x.ChooseFree(len(ctxs))]
				c17Driver(x, []byte(cx.prefix+strings.ReplaceAll(shape, "%s", name)+"\n"))
			})
			// Sequences of tags whose names have the same length: whatever the filter
			// remembers from one tag (a verdict, a lower-cased copy of the name) must
			// not leak into its decision about the next.
			// (separators include characters whose lower-case form has another byte
			// length, and an invalid byte: offsets computed on one spelling of the
			// chunk must not be applied to another)
			seps := []string{"", " ", "x\n", "\u0130", "\u212a", "\xff"}
			c.Explore("tag-sequences", fmt.Sprintf("every sequence of <=3 tags from {allowed name in lower / Title / UPPER case, rejected name in lower / Title / UPPER case}, the allowed name a string of q's as long as the rejected one, for each of the %d raw-text element names, x %d separators x 3 contexts", len(rawTextNames), len(seps)), -1, 3, func(x *X) {
				name := rawTextNames[x.ChooseFree(len(rawTextNames))]
				allowed := strings.Repeat("q", len(name))
				title := func(n string) string { return strings.ToUpper(n[:1]) + n[1:] }
				menu := []string{allowed, title(allowed), strings.ToUpper(allowed), name, title(name), strings.ToUpper(name)}
				sep := seps[x.ChooseFree(len(seps))]
				cx := ctxs[x.ChooseFree(len(ctxs))]
				doc := cx.prefix
				for i := 0; i < 3; i++ {
					k := x.ChooseFree(len(menu) + 1)
					if k == 0 {
						break
					}
					if i > 0 {
						doc += sep
					}
					doc += "<" + menu[k-1] + ">"
				}
				c17Driver(x, []byte(doc+"\n"))
			})
		},
	})
}

// onlyLTEscaped reports whether f is obtainable from u by replacing some '<' with "&lt;".
func onlyLTEscaped(u, f string) (bool, int) {
	i, j := 0, 0
	for i < len(u) && j < len(f) {
		switch {
		case u[i] == f[j]:
			i++
			j++
		case u[i] == '<' && strings.HasPrefix(f[j:], "&lt;"):
			i++
			j += 4
		default:
			return false, j
		}
	}
	return i == len(u) && j == len(f), j
}

func c17Driver(x *X, in []byte) {
	blocks, refs := cm.Parse(clone(in))
	nt := false
	for sb := 0; sb < 3; sb += 2 {
		unf, _ := renderHTML(&cm.HTMLRenderer{ReferenceMap: refs, SoftBreakBehavior: cm.SoftBreakBehavior(sb)}, blocks)
		changed := false
		for _, fp := range c17Filters {
			cfg := fmt.Sprintf("Filter=%s,SoftBreak=%d", fp.name, sb)
			fil, _ := renderHTML(&cm.HTMLRenderer{ReferenceMap: refs, SoftBreakBehavior: cm.SoftBreakBehavior(sb), FilterTag: fp.f}, blocks)
			x.Validated()
			if ok, at := onlyLTEscaped(unf, fil); !ok {
				x.Fail("filter-changes-more-than-lt", cfg, in, "unfiltered %q, filtered %q: differs by more than '<' -> '&lt;' near byte %d of the filtered output", unf, fil, at)
				return
			}
			if fp.name == "reject-none" && fil != unf {
				x.Fail("reject-none-changes-output", cfg, in, "unfiltered %q, filtered with a predicate that rejects nothing %q", unf, fil)
				return
			}
			if fil != unf {
				changed = true
			}
			for _, name := range ref.StartTags(fil) {
				if c17Rejected(fp, name) {
					x.Fail("rejected-start-tag-survives", cfg, in, "an HTML tokenizer reading the filtered output %q sees the start tag <%s>, which the predicate rejects (unfiltered output: %q)", fil, name, unf)
					return
				}
			}
		}
		if sb == 0 && changed && hasRawNodes(blocks) {
			nt = true
		}
	}
	if nt {
		x.Nontrivial()
	}
	x.Outcome(tree.Hash64(tree.Dump(blocks, nil, 0)) ^ tree.HashBytes(in))
	x.Sample(q(in))
}
