package checks

import (
	"bytes"
	"fmt"
	"strings"

	"verif/ref"
	"verif/spaces"
	"verif/tree"

	cm "zombiezen.com/go/commonmark"
)

// ---------------------------------------------------------------------------
// C14: line-ending style, leading blank lines and final newline do not change meaning.

var c14Plan = []planEntry{
	{spaces.I, 4, 5},
	{spaces.L, 3, 4},
	{spaces.XEol.Without("\r"), 6, 7},
	{spaces.XCode, 6, 7},
	{spaces.XList, 6, 7},
	{spaces.XLink, 5, 6},
	{spaces.XRef, 5, 6},
	{spaces.XHTML, 5, 6},
	{spaces.XHead, 6, 7},
	{spaces.B.Without("\r"), 5, 6},
	{spaces.XPhrase, 4, 5},
	{spaces.XRefTail, 5, 6},
	{spaces.XMl, 5, 6},
	{spaces.XMlRef, 5, 6},
	{spaces.XRefHead, 5, 6},
	{spaces.XInfo, 4, 5},
	{spRawAttr, 6, 7},
	{spRawTag, 5, 6},
	{spLinkTail, 6, 7},
	{spDefGram, 5, 6},
}

var c14Pads = []string{"\n", "\r\n", " \n", "\t\n\n", "\r"}

// The inputs are CR-free, so in the CRLF variant every copied line ending is
// the pair CR LF and in the CR variant it is a lone CR; each comparison maps
// exactly that spelling (on both sides), so that a copied CR next to a
// renderer-made LF is never merged.
func mapCRLF(s string) string { return strings.ReplaceAll(s, "\r\n", "\n") }
func mapCR(s string) string   { return strings.ReplaceAll(s, "\r", "\n") }

func init() {
	register(&Check{
		ID:   "C14",
		Rule: "every CR-free token sequence up to the stated length over each declared alphabet: x, crlf(x), cr(x) rendered in three soft-break modes (unsafe); pad+x for 5 blank prefixes; x+LF when x lacks a final line ending (safe mode, modulo insignificant whitespace); non-trivial = x has >= 2 lines and a construct whose rendering copies or depends on a line ending (soft/hard break, code block, HTML block, multi-line inline) or x lacks a final line ending",
		Assumptions: []string{
			"line-ending clause: outputs compared after mapping the variant's line-ending spelling (CRLF, resp. CR) to LF on both sides (the copied line-ending bytes are exactly what may differ)",
			"padding clause: StartOffset shifts by len(pad), StartLine by the number of line endings in pad, everything else (Source, trees, spans, reference map) identical",
			"final-newline clause: IgnoreRaw=true, compared through ref.Norm",
		},
		Run: func(c *Ctx) {
			c.forPlan(c14Plan, c14Driver)
		},
	})
}

func renderCfg(blocks []*cm.RootBlock, refs cm.ReferenceMap, sb cm.SoftBreakBehavior, ignoreRaw bool) string {
	r := &cm.HTMLRenderer{ReferenceMap: refs, SoftBreakBehavior: sb, IgnoreRaw: ignoreRaw}
	s, _ := renderHTML(r, blocks)
	return s
}

func c14Driver(x *X, in []byte) {
	if bytes.IndexByte(in, '\r') >= 0 {
		return
	}
	blocks, refs := cm.Parse(clone(in))
	nt := false
	// Clause 1: line-ending style.
	if bytes.IndexByte(in, '\n') >= 0 {
		crlf := bytes.ReplaceAll(in, []byte("\n"), []byte("\r\n"))
		cr := bytes.ReplaceAll(in, []byte("\n"), []byte("\r"))
		b2, r2 := cm.Parse(clone(crlf))
		b3, r3 := cm.Parse(clone(cr))
		for _, sb := range []cm.SoftBreakBehavior{cm.SoftBreakPreserve, cm.SoftBreakSpace, cm.SoftBreakHarden} {
			h0 := renderCfg(blocks, refs, sb, false)
			h1, h2 := mapCRLF(h0), mapCRLF(renderCfg(b2, r2, sb, false))
			h3 := mapCR(renderCfg(b3, r3, sb, false))
			if h1 != h2 {
				x.Fail("crlf-changes-html", fmt.Sprint("softbreak=", int(sb)), in, "LF input renders %q, CRLF variant renders (after mapping line endings) %q", h1, h2)
				return
			}
			if h1 = mapCR(h0); h1 != h3 {
				x.Fail("cr-changes-html", fmt.Sprint("softbreak=", int(sb)), in, "LF input renders %q, CR variant renders (after mapping line endings) %q", h1, h3)
				return
			}
		}
		x.Validated()
		if bytes.Count(in, []byte("\n")) >= 2 || !bytes.HasSuffix(in, []byte("\n")) {
			x.Count("inputs_multi_line")
			nt = true
		}
	}
	// Clause 2: leading blank lines.
	base := tree.Dump(blocks, refs, tree.Spans|tree.Source|tree.Refs)
	for _, pad := range c14Pads {
		if pad == "\r" && len(in) > 0 && in[0] == '\n' {
			continue
		}
		pb, pr := cm.Parse(append([]byte(pad), in...))
		if got := tree.Dump(pb, pr, tree.Spans|tree.Source|tree.Refs); got != base {
			x.Fail("padding-changes-tree", fmt.Sprintf("pad=%q", pad), in, "without padding:\n%s\nwith padding:\n%s", base, got)
			return
		}
		dl := refLine([]byte(pad), len(pad)) - 1
		for i := range blocks {
			if pb[i].StartOffset != blocks[i].StartOffset+int64(len(pad)) || pb[i].EndOffset != blocks[i].EndOffset+int64(len(pad)) || pb[i].StartLine != blocks[i].StartLine+dl {
				x.Fail("padding-shifts-positions-wrongly", fmt.Sprintf("pad=%q", pad), in, "block %d: offsets [%d,%d) line %d became [%d,%d) line %d; want shift %d bytes, %d lines",
					i, blocks[i].StartOffset, blocks[i].EndOffset, blocks[i].StartLine, pb[i].StartOffset, pb[i].EndOffset, pb[i].StartLine, len(pad), dl)
				return
			}
		}
	}
	// Clause 3: final newline.
	if n := len(in); n > 0 && in[n-1] != '\n' {
		fb, fr := cm.Parse(append(clone(in), '\n'))
		for _, sb := range []cm.SoftBreakBehavior{cm.SoftBreakPreserve} {
			h1 := ref.Norm(renderCfg(blocks, refs, sb, true))
			h2 := ref.Norm(renderCfg(fb, fr, sb, true))
			if h1 != h2 {
				x.Fail("final-newline-changes-html", "", in, "without final newline: %q; with: %q", h1, h2)
				return
			}
		}
		x.Count("inputs_without_final_newline")
		nt = true
	}
	if nt {
		x.Nontrivial()
	}
	x.Outcome(tree.Hash64(base))
	x.Sample(q(in))
}
