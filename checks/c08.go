package checks

import (
	"errors"
	"fmt"
	"io"
	"strings"
	"unicode/utf8"

	"verif/spaces"
	"verif/tree"

	cm "zombiezen.com/go/commonmark"
)

// ---------------------------------------------------------------------------
// C08: streaming parse equals in-memory parse under any read schedule or fault.

var (
	errReaderA = errors.New("verif: injected reader failure A")
	errReaderB = errors.New("verif: injected reader failure B")
)

// scriptedReader asks the explorer for every answer of Read.
type scriptedReader struct {
	x         *X
	in        []byte
	pos       int
	freeCuts  bool  // partitions are scope-bounded (all explored) instead of deviation-bounded
	menu      []int // if set, read sizes come from this menu (menu[0] = as much as fits) instead of 1..remaining
	failed    error // latched injected failure
	eofSent   bool
	empties   int // consecutive empty reads so far
	calls     int
	callsPost int // Read calls after an error or EOF was returned
	// observations for the non-vacuity counters
	splitCRLF, endOnCR, splitRune, splitNul, eofWithData, failedMidLine bool
	log                                                                 []byte
}

func (r *scriptedReader) Read(p []byte) (int, error) {
	r.calls++
	if r.failed != nil {
		r.callsPost++
		return 0, r.failed
	}
	if r.eofSent {
		r.callsPost++
		return 0, io.EOF
	}
	if len(p) == 0 {
		return 0, nil
	}
	x := r.x
	rem := len(r.in) - r.pos
	if rem > len(p) {
		rem = len(p)
	}
	// Environment event (deviation-bounded): 0 none, 1 empty read (nil error),
	// 2 fail now without data (error A), 3 fail with data (error A),
	// 4 fail now without data (error B).
	nev := 5
	if r.empties >= 2 {
		nev = 1
	}
	ev := x.Choose(nev)
	if ev != 0 && nev == 1 {
		ev = 0
	}
	switch ev {
	case 1:
		r.empties++
		r.log = append(r.log, "e,"...)
		return 0, nil
	case 2:
		r.failed = errReaderA
		r.markFail()
		r.log = append(r.log, "FA"...)
		return 0, r.failed
	case 4:
		r.failed = errReaderB
		r.markFail()
		r.log = append(r.log, "FB"...)
		return 0, r.failed
	}
	r.empties = 0
	if rem == 0 {
		if ev == 3 {
			r.failed = errReaderA
			r.log = append(r.log, "FA"...)
			return 0, r.failed
		}
		r.eofSent = true
		r.log = append(r.log, "EOF"...)
		return 0, io.EOF
	}
	// How many bytes: choice 0 = everything that is left.
	var k int
	switch {
	case r.menu != nil:
		k = r.menu[x.Choose(len(r.menu))]
		if k <= 0 || k > rem {
			k = rem
		}
	case r.freeCuts:
		k = rem - x.ChooseFree(rem)
	default:
		k = rem - x.Choose(rem)
	}
	copy(p, r.in[r.pos:r.pos+k])
	r.pos += k
	r.markCut()
	r.log = append(r.log, fmt.Sprintf("%d,", k)...)
	if ev == 3 {
		r.failed = errReaderA
		r.markFail()
		r.log = append(r.log, "+FA"...)
		return k, r.failed
	}
	if r.pos == len(r.in) {
		// End of input together with the last data, or separately.
		var with int
		if r.freeCuts {
			with = x.ChooseFree(2)
		} else {
			with = x.Choose(2)
		}
		if with == 1 {
			r.eofSent = true
			r.eofWithData = true
			r.log = append(r.log, "+EOF"...)
			return k, io.EOF
		}
	}
	return k, nil
}

func (r *scriptedReader) markCut() {
	if r.pos <= 0 || r.pos >= len(r.in) {
		return
	}
	a, b := r.in[r.pos-1], r.in[r.pos]
	if a == '\r' && b == '\n' {
		r.splitCRLF = true
	}
	if a == '\r' {
		r.endOnCR = true
	}
	if a == 0 && b == 0 {
		r.splitNul = true
	}
	if !utf8.RuneStart(b) {
		r.splitRune = true
	}
}

func (r *scriptedReader) markFail() {
	if r.pos > 0 && r.pos < len(r.in) && r.in[r.pos-1] != '\n' {
		r.failedMidLine = true
	}
}

var c08Plan = []planEntry{
	{spaces.B, 4, 5},
	{spaces.XEol, 5, 6},
	{spaces.XNul, 4, 6},
	{spaces.XRef, 3, 5},
	{spaces.XList, 4, 5},
	{spaces.L, 2, 3},
}

func init() {
	register(&Check{
		ID:   "C08",
		Rule: "for every token sequence up to the stated length: every partition of the input into reads and both end-of-input styles (scope-bounded, all explored, for inputs of <= 8 bytes (quick) / 10 bytes (thorough); at most `deviation_bound` departures from one full read for longer ones) x reader events within the deviation bound (empty read with nil error, at most 2 in a row; failure with error A without/with data; failure with error B); non-trivial = the schedule splits a CRLF, ends a read on a CR, splits a multi-byte character or a NUL run, delivers EOF with data, fails, or makes >= 3 reads",
		Assumptions: []string{
			"inputs are far below the 1 MiB streaming block limit (excluded by the property's quantifier)",
			"the caller is the documented loop: NextBlock until error, Extract per block, Rewrite all afterwards",
			"reference for a failure after k delivered bytes: Parse(input[:k])",
		},
		Run: func(c *Ctx) {
			bound := c.Pick(1, 2)
			freeMax := c.Pick(8, 10)
			for _, p := range c08Plan {
				sp := p.sp
				n := c.Pick(p.quick, p.thorough)
				c.Explore(sp.Name, fmt.Sprintf("inputs of <=%d tokens over %d tokens x all read schedules: %s", n, len(sp.Tokens), sp.Doc), bound, n, func(x *X) {
					in := x.Tokens(sp, n)
					c08Driver(x, in, len(in) <= freeMax)
				})
			}
			// Longer inputs: deviation-bounded schedules only.
			lb := c.Pick(2, 3)
			c.Explore("L-long", fmt.Sprintf("inputs of <=%d line templates, schedules with at most %d departures from one full read (a cut at every byte position / pair of positions)", c.Pick(3, 3), lb), lb, 3, func(x *X) {
				in := x.Tokens(spaces.L, 3)
				c08Driver(x, in, false)
			})
			big := c08BigDocs()
			c.Explore("big-docs", fmt.Sprintf("%d generated documents of %d and %d bytes (beyond one and two read chunks of the parser, hundreds of root blocks held until the end); read sizes from the menu {all that fits, 1, 7, 1000, 4096, 8191} with at most %d departures from the first", len(big), len(big[0]), len(big[1]), lb), lb, 0, func(x *X) {
				in := []byte(big[x.ChooseFree(len(big))])
				c08DriverWith(x, in, false, []int{0, 1, 7, 1000, 4096, 8191})
			})
			docs := c08Docs()
			c.Explore("docs", fmt.Sprintf("%d fixed multi-block documents, schedules with at most %d departures", len(docs), lb), lb, 0, func(x *X) {
				in := []byte(docs[x.ChooseFree(len(docs))])
				c08Driver(x, in, false)
			})
		},
	})
}

// c08BigDocs: documents larger than the parser's read chunk (8 KiB) and than
// twice that, with many root blocks that the caller holds until the end.
func c08BigDocs() []string {
	var docs []string
	for _, n := range []int{260, 1000} {
		var sb strings.Builder
		for i := 0; i < n; i++ {
			switch i % 5 {
			case 0:
				fmt.Fprintf(&sb, "[ref%d]: /url/%d \"title %d\"\n\n", i, i, i)
			case 1:
				fmt.Fprintf(&sb, "Paragraph *number* %d with [ref%d] and `code`\r\nsecond line\r\n\r\n", i, i-1)
			case 2:
				fmt.Fprintf(&sb, "- item %d\n- item\x00 two\n\n", i)
			case 3:
				fmt.Fprintf(&sb, "```go\nblock %d\n```\n\n", i)
			default:
				fmt.Fprintf(&sb, "> quote %d\n> é more\r\r", i)
			}
		}
		docs = append(docs, sb.String())
	}
	return docs
}

func c08Docs() []string {
	return []string{
		"# T\r\n\r\npara *one*\r\nline two\r\n\r\n- a\r\n- b\r\n",
		"[foo]: /url \"title\"\n\n> quote [foo]\n> more\n\n```go\ncode\x00\n```\n",
		"a\rb\r\rc\r\n\rd",
		"1. x\n\n   y\n2. z\n\n<div>\nraw\n</div>\n\né\x00\x00ü\n",
		"[a]: /u\n[b]: /v\ntext [a] [b]\n===\n",
	}
}

func c08Driver(x *X, in []byte, freeCuts bool) { c08DriverWith(x, in, freeCuts, nil) }

func c08DriverWith(x *X, in []byte, freeCuts bool, menu []int) {
	r := &scriptedReader{x: x, in: in, freeCuts: freeCuts, menu: menu}
	p := cm.NewBlockParser(r)
	var blocks []*cm.RootBlock
	refs := make(cm.ReferenceMap)
	var err error
	for {
		var b *cm.RootBlock
		b, err = p.NextBlock()
		if err != nil {
			break
		}
		if b == nil {
			x.Fail("nil-block-nil-error", string(r.log), in, "NextBlock returned (nil, nil)")
			return
		}
		blocks = append(blocks, b)
		refs.Extract(b.Source, b.AsNode())
		if len(blocks) > len(in)+2 {
			x.Fail("too-many-blocks", string(r.log), in, "more root blocks than input bytes")
			return
		}
	}
	ip := &cm.InlineParser{ReferenceMatcher: refs}
	for _, b := range blocks {
		ip.Rewrite(b)
	}
	sched := string(r.log)
	// Persistence of the terminal condition.
	wantErr := error(io.EOF)
	if r.failed != nil {
		wantErr = r.failed
	}
	if r.failed == nil && !r.eofSent {
		x.Fail("stopped-before-end", sched, in, "NextBlock returned %v before the reader reported end of input or failed", err)
		return
	}
	if !errors.Is(err, wantErr) || (r.failed != nil && errors.Is(err, io.EOF)) {
		x.Fail("wrong-terminal-error", sched, in, "NextBlock ended with %v, want %v", err, wantErr)
		return
	}
	for i := 0; i < 3; i++ {
		b, e2 := p.NextBlock()
		if b != nil || !errors.Is(e2, wantErr) {
			x.Fail("terminal-error-not-persistent", sched, in, "call %d after the end returned (%v, %v), want (nil, %v)", i+1, b != nil, e2, wantErr)
			return
		}
	}
	// Reference: in-memory parse of what was delivered.
	delivered := in[:r.pos]
	want, wrefs := cm.Parse(clone(delivered))
	x.Validated()
	got := tree.Dump(blocks, refs, tree.Full)
	exp := tree.Dump(want, wrefs, tree.Full)
	if got != exp {
		x.Fail("stream-differs-from-parse", sched, in, "schedule %s delivered %q; streaming result:\n%s\nin-memory result:\n%s", sched, delivered, got, exp)
		return
	}
	nt := false
	mark := func(b bool, name string) {
		if b {
			x.Count(name)
			nt = true
		}
	}
	mark(r.splitCRLF, "schedules_split_crlf")
	mark(r.endOnCR, "schedules_read_ends_on_cr")
	mark(r.splitRune, "schedules_split_multibyte_char")
	mark(r.splitNul, "schedules_split_nul_run")
	mark(r.eofWithData, "schedules_eof_with_data")
	mark(r.failed != nil, "schedules_with_failure")
	mark(r.failedMidLine, "schedules_failure_mid_line")
	mark(r.calls-r.callsPost >= 3, "schedules_ge3_reads")
	if r.callsPost > 0 {
		x.Count("schedules_read_called_after_terminal_answer")
	}
	if len(blocks) >= 2 {
		x.Count("schedules_ge2_blocks")
	}
	if nt {
		x.Nontrivial()
	}
	x.Outcome(tree.Hash64(got) ^ tree.Hash64(sched)*31)
	x.Sample(q(in) + " reads=" + sched)
}
