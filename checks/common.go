package checks

import (
	"bytes"
	"io"

	"verif/spaces"

	cm "zombiezen.com/go/commonmark"
)

// CrashHandlers lets a check (C04) turn a crashed worker into a verdict.
var CrashHandlers = map[string]func(verifDir string, crashed []CrashInfo) int{}

// plan gives, per space, the maximal number of tokens in the quick and the
// thorough tier for the "tree" family of checks (C02, C03, C05, C13 and
// others that cost about one parse per input).
type planEntry struct {
	sp       spaces.Space
	quick    int
	thorough int
}

var treePlan = []planEntry{
	{spaces.B, 5, 6},
	{spaces.I, 5, 6},
	{spaces.L, 3, 4},
	{spaces.XHead, 7, 8},
	{spaces.XRef, 6, 7},
	{spaces.XLink, 6, 7},
	{spaces.XCode, 7, 8},
	{spaces.XHTML, 5, 6},
	{spaces.XEmph, 7, 8},
	{spaces.XList, 7, 8},
	{spaces.XNul, 6, 7},
	{spaces.XEol, 6, 7},
	{spaces.XWs, 5, 6},
	{spaces.XNest, 7, 8},
	{spaces.XMlRef, 5, 6},
	{spaces.XNulRef, 5, 6},
	{spaces.XPhrase, 4, 5},
	{spaces.XRefTail, 5, 6},
	{spaces.XMl, 5, 6},
	{spaces.XDefs, 5, 6},
	{spaces.XInfo, 4, 5},
	{spaces.XRefHead, 6, 7},
	{spaces.XDRuns, 5, 7},
}

// forPlan runs f over every space of a plan at the tier's length.
func (c *Ctx) forPlan(plan []planEntry, f func(x *X, in []byte)) {
	for _, p := range plan {
		c.Inputs(p.sp, c.Pick(p.quick, p.thorough), f)
	}
}

// parseStream parses through the documented streaming pipeline with one
// full read: NextBlock until error, Extract per block, Rewrite afterwards.
func parseStream(in []byte) ([]*cm.RootBlock, cm.ReferenceMap, error) {
	p := cm.NewBlockParser(bytes.NewReader(in))
	var blocks []*cm.RootBlock
	refs := make(cm.ReferenceMap)
	var err error
	for {
		var b *cm.RootBlock
		b, err = p.NextBlock()
		if err != nil {
			break
		}
		blocks = append(blocks, b)
		refs.Extract(b.Source, b.AsNode())
		if len(blocks) > len(in)+2 {
			break
		}
	}
	ip := &cm.InlineParser{ReferenceMatcher: refs}
	for _, b := range blocks {
		ip.Rewrite(b)
	}
	if err == io.EOF {
		err = nil
	}
	return blocks, refs, err
}

// eolVariants returns the input with every LF replaced by CRLF and by CR, for
// inputs that contain LF and no CR (the alphabets that reach most constructs
// are written with LF only).
func eolVariants(in []byte) [][]byte {
	if bytes.IndexByte(in, '\n') < 0 || bytes.IndexByte(in, '\r') >= 0 {
		return nil
	}
	return [][]byte{bytes.ReplaceAll(in, []byte{'\n'}, []byte("\r\n")), bytes.ReplaceAll(in, []byte{'\n'}, []byte{'\r'})}
}

func clone(b []byte) []byte { return append([]byte(nil), b...) }

func isWS(c byte) bool { return c == ' ' || c == '\t' || c == '\n' || c == '\r' }

// renderHTML renders with the given renderer into a string.
func renderHTML(r *cm.HTMLRenderer, blocks []*cm.RootBlock) (string, error) {
	var buf bytes.Buffer
	err := r.Render(&buf, blocks)
	return buf.String(), err
}

func q(b []byte) string {
	if len(b) > 60 {
		b = b[:60]
	}
	return string(appendQuote(nil, b))
}

func appendQuote(dst []byte, b []byte) []byte {
	const hexd = "0123456789abcdef"
	dst = append(dst, '"')
	for _, c := range b {
		switch {
		case c == '\n':
			dst = append(dst, '\\', 'n')
		case c == '\r':
			dst = append(dst, '\\', 'r')
		case c == '\t':
			dst = append(dst, '\\', 't')
		case c == '"' || c == '\\':
			dst = append(dst, '\\', c)
		case c < 0x20 || c >= 0x7f:
			dst = append(dst, '\\', 'x', hexd[c>>4], hexd[c&15])
		default:
			dst = append(dst, c)
		}
	}
	return append(dst, '"')
}
