package checks

import (
	"fmt"
	"strings"

	"verif/ref"
	"verif/spaces"
	"verif/tree"

	cm "zombiezen.com/go/commonmark"
)

// ---------------------------------------------------------------------------
// C11: emphasis resolution follows the spec's delimiter-run algorithm.

func init() {
	register(&Check{
		ID:   "C11",
		Rule: "every string up to the stated length over {* _ a space .}, over {* _ a space . U+201C NBSP e-acute ** a-with-underscores}, and deeper over the sub-alphabets {* _ a space} and {* _ a}; strings that begin or end with a space, are empty, or that the reference recognisers classify as a thematic break or a list item are skipped and counted; the rest are one-paragraph documents whose rendered HTML must equal the reference procedure's; non-trivial = the reference result contains at least one <em> or <strong>",
		Assumptions: []string{
			"reference: spec 6.2 flanking rules + appendix 'process emphasis' without the openers_bottom optimisation, self-tested on the spec's emphasis examples that use no other syntax",
			"Unicode whitespace/punctuation per spec 2.1 over Go's unicode tables",
		},
		SelfTest: func() error { _, err := ref.EmphSelfTest(); return err },
		Run: func(c *Ctx) {
			c.Inputs(spaces.Emph5, c.Pick(10, 12), c11Driver)
			c.Inputs(spaces.XEmph, c.Pick(7, 9), c11Driver)
			c.Inputs(spaces.Emph4, c.Pick(11, 13), c11Driver)
			// Flanking next to every non-ASCII character: each code point from U+0080
			// up (surrogates excepted) before, after and between delimiter runs of both
			// kinds; one execution per block of 256 code points.
			pats := []string{"*%sa*", "*a%s*", "a%s*a*", "*a*%sa", "_%sa_", "_a%s_", "a%s_a_", "**a%s** a", "*%s*"}
			c.Explore("flanking-codepoints", fmt.Sprintf("every code point U+0080..U+10FFFF in %d delimiter-run contexts %q", len(pats), pats), -1, 0, func(x *X) {
				blk := x.ChooseFree(0x1100)
				if blk == 0 {
					return
				}
				for r := rune(blk << 8); r < rune(blk<<8)+256; r++ {
					if r >= 0xD800 && r <= 0xDFFF {
						continue
					}
					for _, p := range pats {
						c11Driver(x, []byte(strings.ReplaceAll(p, "%s", string(r))))
					}
				}
			})
			c.Inputs(spaces.Emph3, c.Pick(13, 16), c11Driver)
			// Whole delimiter runs as tokens: every token is one stack entry of a
			// known class, so 6-7 tokens give stacks that the symbol alphabets only
			// reach at 18-25 symbols.
			c.Inputs(spaces.XDRuns, c.Pick(6, 7), c11Driver)
			// Delimiter runs around a complete inline link. To flanking its brackets
			// and parentheses are ordinary punctuation, and closing the link leaves
			// the delimiters in front of it on the stack: the reference procedure
			// reads the link as "()" and the link's HTML is put back afterwards.
			c.Inputs(spEmphLink, c.Pick(8, 9), func(x *X, in []byte) {
				s := string(in)
				if s == "" || s[0] == ' ' || s[len(s)-1] == ' ' || ref.ThematicBreak(s) >= 0 {
					x.Count("skipped_leading_or_trailing_space_or_empty")
					return
				}
				if _, _, w := ref.ListMarker(s); w >= 0 {
					x.Count("skipped_list_item")
					return
				}
				want := strings.ReplaceAll(ref.EmphasisHTML(strings.ReplaceAll(s, "[b](c)", "()")), "()", `<a href="c">b</a>`)
				blocks, refs := cm.Parse(clone(in))
				got := renderCfg(blocks, refs, cm.SoftBreakPreserve, false)
				x.Validated()
				if got != want {
					x.Fail("emphasis-around-link-differs", "", in, "rendered %q, the spec procedure (link read as punctuation) gives %q", got, want)
					return
				}
				if strings.Contains(want, "<em>") || strings.Contains(want, "<strong>") {
					x.Nontrivial()
				}
				x.Outcome(tree.Hash64(structureOf(want)))
				x.Sample(fmt.Sprintf("%q -> %s", s, want))
			})
		},
	})
}

var spEmphLink = spaces.Space{Name: "Emph-link", Doc: "emphasis delimiters, a letter, a space and a complete inline link", Tokens: []string{"*", "_", "a", " ", "[b](c)"}}

func init() { spaces.All = append(spaces.All, spEmphLink) }

func c11Driver(x *X, in []byte) {
	s := string(in)
	if s == "" || s[0] == ' ' || s[len(s)-1] == ' ' {
		x.Count("skipped_leading_or_trailing_space_or_empty")
		return
	}
	if ref.ThematicBreak(s) >= 0 {
		x.Count("skipped_thematic_break")
		return
	}
	if _, _, w := ref.ListMarker(s); w >= 0 {
		x.Count("skipped_list_item")
		return
	}
	want := ref.EmphasisHTML(s)
	blocks, refs := cm.Parse(clone(in))
	got := renderCfg(blocks, refs, cm.SoftBreakPreserve, false)
	x.Validated()
	if got != want {
		x.Fail("emphasis-differs", "", in, "rendered %q, spec procedure gives %q", got, want)
		return
	}
	if strings.Contains(want, "<em>") || strings.Contains(want, "<strong>") {
		x.Nontrivial()
	}
	if strings.Contains(want, "<strong><em>") || strings.Contains(want, "<em><strong>") {
		x.Count("results_nested_em_strong")
	}
	x.Outcome(tree.Hash64(structureOf(want)))
	x.Sample(fmt.Sprintf("%q -> %s", s, want))
}

// structureOf keeps only the tag skeleton of an HTML string.
func structureOf(h string) string {
	var sb strings.Builder
	for i := 0; i < len(h); i++ {
		if h[i] == '<' {
			j := strings.IndexByte(h[i:], '>')
			if j < 0 {
				break
			}
			sb.WriteString(h[i : i+j+1])
			i += j
		} else if sb.Len() == 0 || sb.String()[sb.Len()-1] != '.' {
			sb.WriteByte('.')
		}
	}
	return sb.String()
}
