package checks

import (
	"bytes"
	"fmt"
	"strings"

	"verif/ref"
	"verif/spaces"
	"verif/tree"

	cm "zombiezen.com/go/commonmark"
)

// ---------------------------------------------------------------------------
// C10: HTML output is the canonical serialization of the tree in every configuration.

var c10Plan = []planEntry{
	{spaces.I, 4, 5},
	{spaces.L, 3, 3},
	{spaces.XHTML, 5, 6},
	{spaces.XLink, 5, 6},
	{spaces.XCode, 6, 7},
	{spaces.XList, 5, 6},
	{spaces.XRef, 5, 6},
	{spaces.Inj, 4, 5},
	{spaces.XEnt, 5, 6},
	{spaces.XEol, 5, 6},
	{spaces.XNul, 5, 6},
	{spaces.XPhrase, 4, 5},
	{spaces.XRefTail, 4, 5},
	{spaces.XInfo, 4, 5},
	{spaces.XRefHead, 5, 6},
	{spaces.XMl, 5, 6},
	{spaces.XAuto, 4, 5},
}

type filterPred struct {
	name string
	f    func([]byte) bool
}

func nameSet(names ...string) func([]byte) bool {
	m := map[string]bool{}
	for _, n := range names {
		m[n] = true
	}
	return func(tag []byte) bool { return m[string(tag)] }
}

var c10Filters = []filterPred{
	{"nil", nil},
	{"GFM", cm.FilterTagGFM},
	{"always", func([]byte) bool { return true }},
	{"never", func([]byte) bool { return false }},
	{"set{script,style,b,div}", nameSet("script", "style", "b", "div")},
	{"set{a,em,li,img,hr,br,code,p}", nameSet("a", "em", "li", "img", "hr", "br", "code", "p")},
}

var spDest = spaces.Space{Name: "destinations", Doc: "link destination characters", Tokens: []string{"a", "%", "2", "G", "f", " ", "\u00e9", "&", "\"", "/", "#", "(", ")", "\\", "\u0141"}}

func init() {
	spaces.All = append(spaces.All, spDest)
	register(&Check{
		ID:   "C10",
		Rule: "every token sequence up to the stated length over each declared alphabet is parsed; the tree is rendered under 36 configurations (3 soft-break behaviours x IgnoreRaw x 6 FilterTag predicates, plus a nil ReferenceMap) by the real renderer and by the reference reading of the tree; non-trivial = the tree contains a node kind other than paragraph/text, or the outputs differ between configurations",
		Assumptions: []string{
			"reference renderer reads the tree through public accessors only; escape sets and spellings follow the library's documented/evident choices (calibration log in DESIGN.md)",
			"with a non-nil FilterTag outputs are compared modulo '&lt;' vs '<' (which '<' gets escaped is C17's subject)",
		},
		Run: func(c *Ctx) {
			c.forPlan(c10Plan, c10Driver)
			// Destinations: every string over the URI alphabet as link destination
			// (bare or in angle brackets, whichever can spell it), image source,
			// reference definition and autolink.
			n := c.Pick(4, 5)
			c.Explore("destinations", fmt.Sprintf("every string of <=%d tokens over %q as destination of an inline link, an image, a reference definition and (with a scheme) an autolink", n, spDest.Tokens), -1, n, func(x *X) {
				d := string(x.Tokens(spDest, n))
				if d == "" {
					return
				}
				var doc string
				switch x.ChooseFree(4) {
				case 0:
					if strings.ContainsAny(d, " ()<") {
						if strings.ContainsAny(d, "<>") {
							return
						}
						doc = "[a](<" + d + ">)\n"
					} else {
						doc = "[a](" + d + ")\n"
					}
				case 1:
					if strings.ContainsAny(d, "<> ") {
						return
					}
					doc = "![a](<" + d + "> \"t\")\n"
				case 2:
					if strings.ContainsAny(d, "<> ") {
						return
					}
					doc = "[a]\n\n[a]: " + d + "\n"
				default:
					if strings.ContainsAny(d, "<> ") {
						return
					}
					doc = "<a:" + d + ">\n"
				}
				c10Driver(x, []byte(doc))
			})
		},
	})
}

func c10Driver(x *X, in []byte) {
	blocks, refs := cm.Parse(clone(in))
	before := tree.Dump(blocks, refs, tree.Full)
	srcCopies := make([][]byte, len(blocks))
	for i, b := range blocks {
		srcCopies[i] = clone(b.Source)
	}
	distinct := map[string]bool{}
	nt := false
	for _, rb := range blocks {
		tree.Visit(rb.AsNode(), func(n, _ cm.Node, _ int) {
			if b := n.Block(); b != nil && b.Kind() != cm.ParagraphKind {
				nt = true
			}
			if i := n.Inline(); i != nil && i.Kind() != cm.TextKind {
				nt = true
			}
		})
	}
	for sb := 0; sb < 3; sb++ {
		for _, ignore := range []bool{false, true} {
			for _, fp := range c10Filters {
				cfg := fmt.Sprintf("SoftBreak=%d,IgnoreRaw=%v,Filter=%s", sb, ignore, fp.name)
				r := &cm.HTMLRenderer{ReferenceMap: refs, SoftBreakBehavior: cm.SoftBreakBehavior(sb), IgnoreRaw: ignore, FilterTag: fp.f}
				got, err := renderHTML(r, blocks)
				if err != nil {
					x.Fail("render-error", cfg, in, "Render returned %v", err)
					return
				}
				want := ref.Render(blocks, ref.RenderConfig{SoftBreak: sb, IgnoreRaw: ignore, Refs: refs, Filter: fp.f})
				x.Validated()
				if !ref.MatchFiltered(got, want) {
					x.Fail("output-differs-from-tree-reading", cfg, in, "Render wrote %q; direct reading of the tree gives %q", got, want)
					return
				}
				distinct[got] = true
				// Determinism.
				again, _ := renderHTML(r, blocks)
				if again != got {
					x.Fail("nondeterministic", cfg, in, "second Render wrote %q, first %q", again, got)
					return
				}
				// Join law and AppendBlock prefix preservation.
				var joined []byte
				for i, b := range blocks {
					if i > 0 {
						joined = append(joined, "\n\n"...)
					}
					prefix := clone(joined)
					joined = r.AppendBlock(joined, b)
					if !bytes.HasPrefix(joined, prefix) {
						x.Fail("appendblock-clobbers-dst", cfg, in, "AppendBlock changed the bytes already in dst")
						return
					}
					if b.Kind() == cm.LinkReferenceDefinitionKind && len(joined) != len(prefix) {
						x.Fail("refdef-renders-bytes", cfg, in, "a link reference definition contributed %q", joined[len(prefix):])
						return
					}
				}
				if string(joined) != got {
					x.Fail("join-law", cfg, in, "Render wrote %q but AppendBlock of each block joined by blank lines is %q", got, joined)
					return
				}
			}
		}
	}
	// A renderer whose ReferenceMap lacks the document's definitions (the zero
	// HTMLRenderer is a usable value): the reference reading looks the label up
	// in the same (empty) map.
	if len(refs) > 0 {
		for sb := 0; sb < 3; sb += 2 {
			cfg := fmt.Sprintf("SoftBreak=%d,IgnoreRaw=false,Filter=nil,ReferenceMap=nil", sb)
			got, _ := renderHTML(&cm.HTMLRenderer{SoftBreakBehavior: cm.SoftBreakBehavior(sb)}, blocks)
			want := ref.Render(blocks, ref.RenderConfig{SoftBreak: sb})
			if got != want {
				x.Fail("output-differs-from-tree-reading", cfg, in, "Render wrote %q; direct reading of the tree gives %q", got, want)
				return
			}
		}
		x.Count("inputs_rendered_without_their_reference_map")
	}
	var def bytes.Buffer
	if err := cm.RenderHTML(&def, blocks, refs); err != nil {
		x.Fail("render-error", "RenderHTML", in, "RenderHTML returned %v", err)
		return
	}
	d2, _ := renderHTML(&cm.HTMLRenderer{ReferenceMap: refs}, blocks)
	if def.String() != d2 {
		x.Fail("renderhtml-differs", "RenderHTML", in, "RenderHTML wrote %q, default HTMLRenderer %q", def.String(), d2)
		return
	}
	if after := tree.Dump(blocks, refs, tree.Full); after != before {
		x.Fail("tree-modified", "", in, "dump before rendering:\n%s\nafter:\n%s", before, after)
		return
	}
	for i, b := range blocks {
		if !bytes.Equal(b.Source, srcCopies[i]) {
			x.Fail("source-modified", "", in, "Source of block %d changed from %q to %q", i, srcCopies[i], b.Source)
			return
		}
	}
	if len(distinct) > 1 {
		x.Count("inputs_outputs_differ_between_configurations")
		nt = true
	}
	if nt {
		x.Nontrivial()
	}
	x.Outcome(tree.Hash64(d2))
	x.Sample(q(in) + " -> " + truncate(d2, 120))
}
