package checks

import (
	"fmt"
	"sort"
	"strings"

	"verif/ref"
	"verif/spaces"
	"verif/tree"

	cm "zombiezen.com/go/commonmark"
)

// ---------------------------------------------------------------------------
// C07: without raw HTML, output is well-formed, fixed-vocabulary, fully escaped HTML.

var c07Plan = []planEntry{
	{spaces.I, 4, 5},
	{spaces.Inj, 4, 5},
	{spaces.XEnt, 4, 5},
	{spaces.XHTML, 5, 6},
	{spaces.XLink, 5, 6},
	{spaces.XCode, 6, 7},
	{spaces.XRef, 5, 6},
	{spaces.XList, 5, 6},
	{spaces.B, 5, 6},
	{spaces.L, 3, 4},
	{spaces.XPhrase, 4, 5},
	{spaces.XInfo, 4, 5},
	{spaces.XAuto, 4, 5},
}

func hasRawNodes(blocks []*cm.RootBlock) bool {
	found := false
	for _, rb := range blocks {
		tree.Visit(rb.AsNode(), func(n, _ cm.Node, _ int) {
			if b := n.Block(); b != nil && b.Kind() == cm.HTMLBlockKind {
				found = true
			}
			if i := n.Inline(); i != nil && (i.Kind() == cm.RawHTMLKind || i.Kind() == cm.HTMLTagKind) {
				found = true
			}
		})
	}
	return found
}

func init() {
	register(&Check{
		ID:   "C07",
		Rule: "every token sequence up to the stated length over each declared alphabet is parsed and rendered with IgnoreRaw=true under the three soft-break behaviours, and with IgnoreRaw=false under the three behaviours when the tree has no HTML block / raw HTML / HTML tag node (FilterTag unset), and in each case additionally with FilterTag=GFM, with a predicate that rejects nothing, and with a nil ReferenceMap; every output must be accepted by the strict scanner ref.CheckSafeHTML; non-trivial = the output contains an attribute or a character reference, or the input contains one of \" < > & '",
		Assumptions: []string{
			"output language: elements {p hr h1-h6 pre code blockquote ol ul li em strong a img br}; attributes {code.class ol.start a.href a.title img.src img.title img.alt}; attributes are ' name=\"value\"' separated by one space; no raw < in text or values, no raw \" in values; every & begins &#d+; &#xh+; or &name; with name in the HTML5 table",
			"HTML5 entity table generated from Python's html.entities (dev time)",
		},
		SelfTest: ref.HTMLCheckSelfTest,
		Run: func(c *Ctx) {
			c.forPlan(c07Plan, c07Driver)
			// Destinations: every string over the URI alphabet (percent signs, digits,
			// quotes, ampersands, non-ASCII) as destination of an inline link, an
			// image, a reference definition and an autolink: the attribute value the
			// renderer writes for it must stay inside its quotes.
			n := c.Pick(4, 5)
			c.Explore("destinations", fmt.Sprintf("every string of <=%d tokens over %q as destination of an inline link, an image, a reference definition and (with a scheme) an autolink", n, spDest.Tokens), -1, n, func(x *X) {
				d := string(x.Tokens(spDest, n))
				if d == "" || strings.ContainsAny(d, "<>") {
					return
				}
				var doc string
				switch x.ChooseFree(4) {
				case 0:
					if strings.ContainsAny(d, " ()") {
						doc = "[a](<" + d + ">)\n"
					} else {
						doc = "[a](" + d + ")\n"
					}
				case 1:
					if strings.Contains(d, " ") {
						return
					}
					doc = "![a](<" + d + "> \"t\")\n"
				case 2:
					if strings.Contains(d, " ") {
						return
					}
					doc = "[a]\n\n[a]: " + d + "\n"
				default:
					if strings.Contains(d, " ") {
						return
					}
					doc = "<a:" + d + ">\n"
				}
				c07Driver(x, []byte(doc))
			})
		},
	})
}

var c07AltConfigs = []struct {
	name   string
	filter func([]byte) bool
	noRefs bool
}{
	{"Filter=GFM", cm.FilterTagGFM, false},
	{"Filter=never", func([]byte) bool { return false }, false},
	{"ReferenceMap=nil", nil, true},
}

func c07Driver(x *X, in []byte) {
	blocks, refs := cm.Parse(clone(in))
	raw := hasRawNodes(blocks)
	nt := false
	for _, c := range in {
		if c == '"' || c == '<' || c == '>' || c == '&' || c == '\'' {
			nt = true
		}
	}
	var first string
	for _, ignore := range []bool{true, false} {
		if !ignore && raw {
			x.Count("inputs_with_raw_html_nodes")
			continue
		}
		for sb := cm.SoftBreakBehavior(0); sb < 3; sb++ {
			out := renderCfg(blocks, refs, sb, ignore)
			if first == "" {
				first = out
			}
			st, err := ref.CheckSafeHTML(out)
			x.Validated()
			if err != nil {
				x.Fail("unsafe-output", fmt.Sprintf("IgnoreRaw=%v,SoftBreak=%d", ignore, sb), in, "%v\noutput: %q", err, out)
				return
			}
			// The other renderer settings must not reopen the door: a tag predicate
			// next to IgnoreRaw (it may only escape more), and a reference map that
			// lacks the document's definitions (the zero HTMLRenderer is usable).
			for _, alt := range c07AltConfigs {
				r := &cm.HTMLRenderer{ReferenceMap: refs, SoftBreakBehavior: sb, IgnoreRaw: ignore, FilterTag: alt.filter}
				if alt.noRefs {
					r.ReferenceMap = nil
				}
				o2, _ := renderHTML(r, blocks)
				if _, err := ref.CheckSafeHTML(o2); err != nil {
					x.Fail("unsafe-output", fmt.Sprintf("IgnoreRaw=%v,SoftBreak=%d,%s", ignore, sb, alt.name), in, "%v\noutput: %q", err, o2)
					return
				}
			}
			if ignore && sb == 0 {
				if len(st.Attrs) > 0 || st.CharRefs > 0 {
					nt = true
				}
				keys := make([]string, 0, len(st.Elements)+len(st.Attrs))
				for k := range st.Elements {
					keys = append(keys, "out_element_"+k)
				}
				for k := range st.Attrs {
					keys = append(keys, "out_attr_"+k)
				}
				sort.Strings(keys)
				for _, k := range keys {
					x.Count(k)
				}
			}
		}
	}
	if nt {
		x.Nontrivial()
	}
	x.Outcome(tree.Hash64(first))
	x.Sample(q(in) + " -> " + truncate(first, 120))
}
