// Package tree observes parsed trees through the public node API only and
// produces the canonical observation ("dump") used wherever trees are compared.
package tree

import (
	"fmt"
	"sort"
	"strconv"

	cm "zombiezen.com/go/commonmark"
)

// Flags selecting what a dump contains.
const (
	Spans     = 1 << iota // node spans
	Positions             // RootBlock StartLine/StartOffset/EndOffset
	Source                // RootBlock.Source bytes
	Refs                  // reference map
	Full      = Spans | Positions | Source | Refs
	Semantic  = Refs
)

// Visit calls f for every node below (and including) n in pre-order with its
// parent and depth, using the default child accessors.
func Visit(n cm.Node, f func(n, parent cm.Node, depth int)) {
	var rec func(n, parent cm.Node, depth int)
	rec = func(n, parent cm.Node, depth int) {
		f(n, parent, depth)
		for i, c := 0, n.ChildCount(); i < c; i++ {
			rec(n.Child(i), n, depth+1)
		}
	}
	rec(n, cm.Node{}, 0)
}

// KindName names a node's kind.
func KindName(n cm.Node) string {
	if b := n.Block(); b != nil {
		return b.Kind().String()
	}
	if i := n.Inline(); i != nil {
		return i.Kind().String()
	}
	return "nil"
}

type dumper struct {
	buf   []byte
	flags int
}

func (d *dumper) s(x string)   { d.buf = append(d.buf, x...) }
func (d *dumper) i(x int)      { d.buf = strconv.AppendInt(d.buf, int64(x), 10) }
func (d *dumper) q(x string)   { d.buf = strconv.AppendQuote(d.buf, x) }
func (d *dumper) bytesQ(x []byte) { d.buf = strconv.AppendQuote(d.buf, string(x)) }

func (d *dumper) node(src []byte, n cm.Node, depth int) {
	for i := 0; i < depth; i++ {
		d.buf = append(d.buf, ' ')
	}
	if b := n.Block(); b != nil {
		d.s("B")
		d.i(int(b.Kind()))
		if d.flags&Spans != 0 {
			sp := b.Span()
			d.s("[")
			d.i(sp.Start)
			d.s(",")
			d.i(sp.End)
			d.s(")")
		}
		d.s(" h")
		d.i(b.HeadingLevel())
		if b.IsOrderedList() {
			d.s(" ord")
		}
		if b.IsTightList() {
			d.s(" tight")
		}
		d.s(" n")
		d.i(b.ListItemNumber(src))
		if b.InfoString() != nil {
			d.s(" info")
		}
		d.s("\n")
		for i, c := 0, b.ChildCount(); i < c; i++ {
			d.node(src, b.Child(i), depth+1)
		}
		return
	}
	in := n.Inline()
	if in == nil {
		d.s("nil\n")
		return
	}
	d.s("I")
	d.i(int(in.Kind()))
	if d.flags&Spans != 0 {
		sp := in.Span()
		d.s("[")
		d.i(sp.Start)
		d.s(",")
		d.i(sp.End)
		d.s(")")
	}
	if w := in.IndentWidth(); w != 0 {
		d.s(" w")
		d.i(w)
	}
	switch in.Kind() {
	case cm.LinkKind, cm.ImageKind:
		d.s(" ref=")
		d.q(in.LinkReference())
		if in.LinkDestination() != nil {
			d.s(" D")
		}
		if in.LinkTitle() != nil {
			d.s(" T")
		}
	case cm.LinkLabelKind:
		d.s(" ref=")
		d.q(in.LinkReference())
	case cm.InfoStringKind, cm.LinkDestinationKind, cm.LinkTitleKind:
		d.s(" text=")
		d.q(in.Text(src))
	}
	if in.ChildCount() == 0 {
		d.s(" t=")
		d.q(in.Text(src))
	}
	d.s("\n")
	for i, c := 0, in.ChildCount(); i < c; i++ {
		d.node(src, in.Child(i).AsNode(), depth+1)
	}
}

// Dump returns the canonical observation of a parse result. A panic inside an
// accessor is caught and becomes part of the dump.
func Dump(blocks []*cm.RootBlock, refs cm.ReferenceMap, flags int) (out string) {
	d := &dumper{flags: flags}
	defer func() {
		if r := recover(); r != nil {
			out = string(d.buf) + fmt.Sprintf("\nPANIC in accessor: %v", r)
		}
	}()
	for _, b := range blocks {
		d.Root(b)
	}
	if flags&Refs != 0 {
		d.refs(refs)
	}
	return string(d.buf)
}

// DumpBlock dumps one root block (no reference map).
func DumpBlock(b *cm.RootBlock, flags int) (out string) {
	d := &dumper{flags: flags}
	defer func() {
		if r := recover(); r != nil {
			out = string(d.buf) + fmt.Sprintf("\nPANIC in accessor: %v", r)
		}
	}()
	d.Root(b)
	return string(d.buf)
}

func (d *dumper) Root(b *cm.RootBlock) {
	d.s("ROOT")
	if d.flags&Positions != 0 {
		d.s(" line=")
		d.i(b.StartLine)
		d.s(" off=")
		d.i(int(b.StartOffset))
		d.s("..")
		d.i(int(b.EndOffset))
	}
	if d.flags&Source != 0 {
		d.s(" src=")
		d.bytesQ(b.Source)
	}
	d.s("\n")
	d.node(b.Source, b.AsNode(), 1)
}

func (d *dumper) refs(refs cm.ReferenceMap) {
	keys := make([]string, 0, len(refs))
	for k := range refs {
		keys = append(keys, k)
	}
	sort.Strings(keys)
	for _, k := range keys {
		def := refs[k]
		d.s("REF ")
		d.q(k)
		d.s(" -> ")
		d.q(def.Destination)
		d.s(" ")
		d.q(def.Title)
		if def.TitlePresent {
			d.s(" T")
		}
		d.s("\n")
	}
}

// Hash64 is FNV-1a.
func Hash64(s string) uint64 {
	h := uint64(14695981039346656037)
	for i := 0; i < len(s); i++ {
		h ^= uint64(s[i])
		h *= 1099511628211
	}
	return h
}

// HashBytes is FNV-1a over bytes.
func HashBytes(s []byte) uint64 {
	h := uint64(14695981039346656037)
	for i := 0; i < len(s); i++ {
		h ^= uint64(s[i])
		h *= 1099511628211
	}
	return h
}

// Count returns the number of nodes below and including n.
func Count(n cm.Node) int {
	c := 1
	for i, k := 0, n.ChildCount(); i < k; i++ {
		c += Count(n.Child(i))
	}
	return c
}

// Depth returns the height of the tree below n.
func Depth(n cm.Node) int {
	m := 0
	for i, k := 0, n.ChildCount(); i < k; i++ {
		if d := Depth(n.Child(i)); d > m {
			m = d
		}
	}
	return m + 1
}
