// Command verif is the orchestrator and the worker of every check.
//
//	verif run <Cnn> <quick|thorough>     explore, print verdict lines, write evidence
//	verif worker ...                     one shard (spawned by run)
//	verif replay <path>                  re-run exactly one recorded execution
//	verif selftest                       oracle and alphabet self-tests
//	verif record <Cnn> <tier> <file>     development: dump every failing case key
package main

import (
	"encoding/hex"
	"encoding/json"
	"flag"
	"fmt"
	"os"
	"os/exec"
	"path/filepath"
	"runtime"
	"sort"
	"strconv"
	"strings"
	"time"

	"verif/checks"
	"verif/mc"
	"verif/spaces"
)

func verifDir() string {
	if d := os.Getenv("VERIF_DIR"); d != "" {
		return d
	}
	return "/verif"
}

func main() {
	if len(os.Args) < 2 {
		usage()
	}
	switch os.Args[1] {
	case "run":
		if len(os.Args) < 4 {
			usage()
		}
		os.Exit(orchestrate(os.Args[2], os.Args[3], ""))
	case "record":
		if len(os.Args) < 5 {
			usage()
		}
		os.Exit(orchestrate(os.Args[2], os.Args[3], os.Args[4]))
	case "worker":
		worker(os.Args[2:])
	case "replay":
		if len(os.Args) < 3 {
			usage()
		}
		os.Exit(replay(os.Args[2]))
	case "one":
		// verif one <Cnn> <hex input>: run the check's driver on one input (crash confirmation).
		if len(os.Args) < 4 {
			usage()
		}
		os.Exit(one(os.Args[2], os.Args[3]))
	case "racepair":
		// verif racepair <i> <j> <reps>: C19 part 2, one operation pair, for the -race flavour.
		if len(os.Args) < 5 {
			usage()
		}
		a, _ := strconv.Atoi(os.Args[2])
		b, _ := strconv.Atoi(os.Args[3])
		reps, _ := strconv.Atoi(os.Args[4])
		runs, mismatch := checks.RacePair(a, b, reps)
		if mismatch != "" {
			fmt.Println("racepair: RESULT MISMATCH:", mismatch)
			os.Exit(1)
		}
		fmt.Printf("racepair %d %d: %d free-running runs, no race report, all results equal the sequential ones\n", a, b, runs)
	case "racecorpus":
		g := 8
		if len(os.Args) > 2 {
			g, _ = strconv.Atoi(os.Args[2])
		}
		docs, mismatch := checks.RaceCorpus(g)
		if mismatch != "" {
			fmt.Println("racecorpus: RESULT MISMATCH:", mismatch)
			os.Exit(1)
		}
		fmt.Printf("racecorpus: %d spec examples on %d goroutines, then every tree rendered/formatted/walked concurrently: no race report, all results equal the sequential ones\n", docs, g)
	case "selftest":
		os.Exit(selftest(""))
	case "list":
		ids := []string{}
		for id := range checks.Registry {
			ids = append(ids, id)
		}
		sort.Strings(ids)
		fmt.Println(strings.Join(ids, " "))
	default:
		usage()
	}
}

func usage() {
	fmt.Fprintln(os.Stderr, "usage: verif run <Cnn> <quick|thorough> | replay <path> | selftest | list")
	os.Exit(2)
}

func selftest(only string) int {
	if err := spaces.SelfTest(); err != nil {
		fmt.Println("FRAMEWORK-ERROR: alphabet self-test:", err)
		return 2
	}
	ids := []string{}
	for id := range checks.Registry {
		ids = append(ids, id)
	}
	sort.Strings(ids)
	for _, id := range ids {
		if only != "" && id != only {
			continue
		}
		ck := checks.Registry[id]
		if ck.SelfTest != nil {
			if err := ck.SelfTest(); err != nil {
				fmt.Printf("FRAMEWORK-ERROR: oracle self-test of %s: %v\n", id, err)
				return 2
			}
		}
	}
	if only == "" {
		fmt.Println("selftest ok")
	}
	return 0
}

func worker(args []string) {
	fs := flag.NewFlagSet("worker", flag.ExitOnError)
	id := fs.String("id", "", "")
	tier := fs.String("tier", "quick", "")
	shard := fs.Int("shard", 0, "")
	n := fs.Int("n", 1, "")
	out := fs.String("out", "", "")
	record := fs.Bool("record", false, "")
	deadline := fs.Int("deadline", 0, "seconds")
	inflight := fs.String("inflight", "", "file that receives the in-flight input (crash attribution)")
	fs.Parse(args)
	ck := checks.Registry[*id]
	if ck == nil {
		fmt.Fprintln(os.Stderr, "unknown check", *id)
		os.Exit(2)
	}
	known, _, err := checks.LoadKnown(verifDir(), *id)
	if err != nil {
		fmt.Fprintln(os.Stderr, "known findings:", err)
		os.Exit(2)
	}
	ctx := &checks.Ctx{Check: ck, Tier: *tier, Shard: *shard, NShards: *n, Known: known, Record: *record, VerifDir: verifDir(), InflightPath: *inflight}
	if *deadline > 0 {
		ctx.Deadline = time.Now().Add(time.Duration(*deadline) * time.Second)
	}
	ctx.Res.Property = *id
	ctx.Res.Shard = *shard
	start := time.Now()
	func() {
		defer func() {
			if r := recover(); r != nil {
				if fe, ok := r.(*mc.FrameworkError); ok {
					fmt.Fprintln(os.Stderr, "FRAMEWORK-ERROR:", fe.Msg)
					os.Exit(3)
				}
				panic(r)
			}
		}()
		ck.Run(ctx)
	}()
	ctx.Finish()
	ctx.Res.WallS = time.Since(start).Seconds()
	data, _ := json.Marshal(&ctx.Res)
	if err := os.WriteFile(*out, data, 0o644); err != nil {
		fmt.Fprintln(os.Stderr, err)
		os.Exit(2)
	}
}

func envInt(name string, def int) int {
	if v := os.Getenv(name); v != "" {
		if n, err := strconv.Atoi(v); err == nil {
			return n
		}
	}
	return def
}

func orchestrate(id, tier, recordFile string) int {
	ck := checks.Registry[id]
	if ck == nil {
		fmt.Println("FRAMEWORK-ERROR: unknown check", id)
		return 2
	}
	if tier != "quick" && tier != "thorough" {
		usage()
	}
	start := time.Now()
	if rc := selftest(id); rc != 0 {
		return rc
	}
	seed := envInt("VERIF_SEED", 0)
	nw := envInt("VERIF_WORKERS", runtime.NumCPU())
	if nw > 16 {
		nw = 16
	}
	if nw < 1 {
		nw = 1
	}
	deadline := envInt("VERIF_DEADLINE_S", map[string]int{"quick": 420, "thorough": 2400}[tier])
	tmp, err := os.MkdirTemp("", "verif-"+id+"-")
	if err != nil {
		fmt.Println("FRAMEWORK-ERROR:", err)
		return 2
	}
	defer os.RemoveAll(tmp)
	self, _ := os.Executable()
	if wb := os.Getenv("VERIF_WORKER_BIN"); wb != "" {
		self = wb // instrumented worker flavour (C04, C19)
	}
	type proc struct {
		cmd    *exec.Cmd
		out    string
		stderr *strings.Builder
	}
	procs := make([]*proc, nw)
	for i := 0; i < nw; i++ {
		out := filepath.Join(tmp, fmt.Sprintf("w%d.json", i))
		args := []string{"worker", "-id", id, "-tier", tier, "-shard", strconv.Itoa(i), "-n", strconv.Itoa(nw), "-out", out, "-deadline", strconv.Itoa(deadline), "-inflight", out + ".inflight"}
		if recordFile != "" {
			args = append(args, "-record")
		}
		cmd := exec.Command(self, args...)
		cmd.Env = append(os.Environ(), "GOMAXPROCS=2", "GOGC=200")
		sb := &strings.Builder{}
		cmd.Stderr = sb
		cmd.Stdout = sb
		if err := cmd.Start(); err != nil {
			fmt.Println("FRAMEWORK-ERROR: cannot start worker:", err)
			return 2
		}
		procs[i] = &proc{cmd: cmd, out: out, stderr: sb}
	}
	// Hard backstop: a worker stuck inside one call of the code under test.
	hard := time.Duration(deadline+240) * time.Second
	timer := time.AfterFunc(hard, func() {
		for _, p := range procs {
			p.cmd.Process.Kill()
		}
	})
	var results []*checks.Result
	crashed := []string{}
	var crashInfos []checks.CrashInfo
	for i, p := range procs {
		err := p.cmd.Wait()
		if err != nil {
			crashed = append(crashed, fmt.Sprintf("worker %d: %v\n%s", i, err, tail(p.stderr.String(), 4000)))
			inflight, _ := os.ReadFile(p.out + ".inflight")
			crashInfos = append(crashInfos, checks.CrashInfo{Worker: i, Err: err.Error(), Stderr: tail(p.stderr.String(), 6000), Inflight: inflight})
			continue
		}
		data, err := os.ReadFile(p.out)
		if err != nil {
			crashed = append(crashed, fmt.Sprintf("worker %d: %v", i, err))
			continue
		}
		r := &checks.Result{}
		if err := json.Unmarshal(data, r); err != nil {
			crashed = append(crashed, fmt.Sprintf("worker %d: %v", i, err))
			continue
		}
		results = append(results, r)
	}
	timer.Stop()
	if len(crashed) > 0 {
		if h := checks.CrashHandlers[id]; h != nil && len(crashInfos) == len(crashed) {
			return h(verifDir(), crashInfos)
		}
		fmt.Println("FRAMEWORK-ERROR: worker(s) did not complete (a crash or hang inside the code under test is decided by C04, not by this check):")
		for _, c := range crashed {
			fmt.Println(c)
		}
		return 2
	}

	// Merge.
	ev := map[string]any{}
	cov := map[string]any{}
	counters := map[string]int64{}
	maxima := map[string]int64{}
	knownHits := map[string]int64{}
	outcomes := map[uint64]struct{}{}
	outcomesCapped := false
	var viol []checks.Violation
	var violCount, nontrivial, validated, panics int64
	var samples []any
	expl := map[string]*checks.ExplResult{}
	var explOrder []string
	recorded := []string{}
	for _, r := range results {
		for k, v := range r.Counters {
			counters[k] += v
		}
		for k, v := range r.Maxima {
			if v > maxima[k] {
				maxima[k] = v
			}
		}
		for k, v := range r.KnownHits {
			knownHits[k] += v
		}
		for _, o := range r.Outcomes {
			outcomes[o] = struct{}{}
		}
		outcomesCapped = outcomesCapped || r.OutcomesCapped
		viol = append(viol, r.Violations...)
		violCount += r.ViolationCount
		nontrivial += r.Nontrivial
		validated += r.Validated
		panics += r.Panics
		for _, s := range r.Samples {
			if len(samples) < 8 {
				samples = append(samples, s)
			}
		}
		recorded = append(recorded, r.Recorded...)
		for _, e := range r.Explorations {
			m := expl[e.Name]
			if m == nil {
				c := e
				c.Executions, c.States, c.Transitions, c.Failures = 0, 0, 0, 0
				c.Exhaustive = true
				expl[e.Name] = &c
				explOrder = append(explOrder, e.Name)
				m = &c
			}
			m.Executions += e.Executions
			m.States += e.States
			m.Transitions += e.Transitions
			m.Failures += e.Failures
			if e.MaxDepth > m.MaxDepth {
				m.MaxDepth = e.MaxDepth
			}
			m.Exhaustive = m.Exhaustive && e.Exhaustive
		}
	}
	var evals, states, trans int64
	exhaustive := true
	var explList []any
	for _, n := range explOrder {
		e := expl[n]
		evals += e.Executions
		states += e.States
		trans += e.Transitions
		exhaustive = exhaustive && e.Exhaustive
		explList = append(explList, e)
	}
	if recordFile != "" {
		sort.Strings(recorded)
		os.WriteFile(recordFile, []byte(strings.Join(recorded, "\n")+"\n"), 0o644)
		fmt.Printf("recorded %d failing case keys to %s\n", len(recorded), recordFile)
	}

	postEv := map[string]any{}
	if ck.Post != nil && recordFile == "" {
		ev2, vs, err := ck.Post(verifDir(), tier)
		if err != nil {
			fmt.Println("FRAMEWORK-ERROR:", err)
			return 2
		}
		postEv = ev2
		viol = append(viol, vs...)
		violCount += int64(len(vs))
	}
	_, findings, _ := checks.LoadKnown(verifDir(), id)
	rc := 0
	knownOut := []any{}
	for _, fd := range findings {
		if n := knownHits[fd.ID]; n > 0 {
			fmt.Printf("KNOWN-FINDING: property=%s finding=%s %s (%d listed failing cases reproduced in this run)\n", id, fd.ID, fd.Text, n)
			knownOut = append(knownOut, map[string]any{"finding": fd.ID, "reproduced_cases": n, "what": fd.Text})
		}
	}
	sort.Slice(viol, func(i, j int) bool {
		if len(viol[i].InputHex) != len(viol[j].InputHex) {
			return len(viol[i].InputHex) < len(viol[j].InputHex)
		}
		return viol[i].InputHex < viol[j].InputHex
	})
	for i, v := range viol {
		if i < 10 {
			fmt.Printf("VIOLATION property=%s replay=%s\n", id, v.Replay)
			fmt.Printf("  exploration=%s kind=%s config=%s input=%s\n  %s\n", v.Exploration, v.Kind, v.Config, v.InputQuoted, v.Message)
		}
		rc = 1
	}
	if violCount > 0 {
		rc = 1
		fmt.Printf("%d failing case(s) not listed as known findings (first %d shown, exploration stops early after %d per worker)\n", violCount, min(len(viol), 10), 20)
	}

	for _, s := range samples {
		_ = s
	}
	if len(samples) == 0 {
		samples = append(samples, "(no sample proposed)")
	}
	cov["states"] = states
	cov["transitions"] = trans
	cov["traces_validated_against_impl"] = validated
	cov["evaluations"] = evals
	cov["distinct_nontrivial"] = nontrivial
	cov["rule"] = ck.Rule
	cov["samples"] = samples
	cov["exhaustive"] = exhaustive
	cov["distinct_outcomes"] = len(outcomes)
	cov["distinct_outcomes_capped"] = outcomesCapped
	cov["explorations"] = explList
	cov["reach_counters"] = counters
	if len(maxima) > 0 {
		cov["maxima"] = maxima
	}
	cov["driver_panics_skipped"] = panics
	cov["known_findings_reproduced"] = knownOut
	cov["workers"] = nw
	for k, v := range postEv {
		cov[k] = v
	}
	cov["worker_deadline_s"] = deadline
	if !exhaustive {
		cov["note"] = "a deadline or the early stop after violations ended at least one exploration before its space was exhausted; see explorations[].exhaustive"
	}
	ev["property_id"] = id
	ev["tier"] = tier
	ev["seed"] = seed
	ev["level"] = ck.Level
	ev["coverage"] = cov
	ev["assumptions"] = ck.Assumptions
	ev["wall_s"] = time.Since(start).Seconds()
	ev["violations"] = violCount
	data, _ := json.MarshalIndent(ev, "", " ")
	evDir := filepath.Join(verifDir(), "evidence")
	if d := os.Getenv("VERIF_EVIDENCE_DIR"); d != "" {
		evDir = d // scratch runs against modified copies of the repo must not overwrite the real evidence
	}
	os.MkdirAll(evDir, 0o755)
	if err := os.WriteFile(filepath.Join(evDir, id+".json"), append(data, '\n'), 0o644); err != nil {
		fmt.Println("FRAMEWORK-ERROR:", err)
		return 2
	}
	fmt.Printf("%s %s: executions=%d states=%d transitions=%d nontrivial=%d outcomes=%d exhaustive=%v violations=%d wall=%.1fs\n",
		id, tier, evals, states, trans, nontrivial, len(outcomes), exhaustive, violCount, time.Since(start).Seconds())
	return rc
}

func one(id, hexIn string) int {
	ck := checks.Registry[id]
	if ck == nil || ck.ReplayInput == nil {
		fmt.Println("FRAMEWORK-ERROR: check", id, "cannot run single inputs")
		return 2
	}
	in, err := hex.DecodeString(hexIn)
	if err != nil {
		fmt.Println("FRAMEWORK-ERROR:", err)
		return 2
	}
	ctx := &checks.Ctx{Check: ck, Tier: "thorough", NShards: 1, Known: map[string]string{}, VerifDir: verifDir()}
	vs := ctx.RunOne(in)
	for _, v := range vs {
		fmt.Printf("one: kind=%s config=%s %s\n", v.Kind, v.Config, v.Message)
	}
	if len(vs) > 0 {
		return 1
	}
	fmt.Println("one: no violation")
	return 0
}

func tail(s string, n int) string {
	if len(s) > n {
		return "..." + s[len(s)-n:]
	}
	return s
}

func replay(path string) int {
	data, err := os.ReadFile(path)
	if err != nil {
		fmt.Println("FRAMEWORK-ERROR:", err)
		return 2
	}
	var v checks.Violation
	if err := json.Unmarshal(data, &v); err != nil {
		fmt.Println("FRAMEWORK-ERROR:", err)
		return 2
	}
	ck := checks.Registry[v.Property]
	if ck == nil {
		fmt.Println("FRAMEWORK-ERROR: unknown property", v.Property)
		return 2
	}
	tier := os.Getenv("VERIF_TIER")
	if tier == "" {
		tier = "thorough"
	}
	if len(v.Choices) == 0 && v.InputHex != "" && ck.ReplayInput != nil {
		fmt.Printf("replaying input %s directly (recorded from a worker crash; this process may crash the same way)\n", v.InputQuoted)
		return one(v.Property, v.InputHex)
	}
	ctx := &checks.Ctx{Check: ck, Tier: tier, NShards: 1, Known: map[string]string{}, VerifDir: verifDir(),
		Replay: &checks.ReplaySpec{Exploration: v.Exploration, Choices: v.Choices}}
	ck.Run(ctx)
	if len(ctx.Res.Violations) == 0 {
		fmt.Printf("replay of %s: no violation (input %s)\n", path, v.InputQuoted)
		return 0
	}
	for _, r := range ctx.Res.Violations {
		fmt.Printf("VIOLATION property=%s replay=%s\n  exploration=%s kind=%s config=%s input=%s\n  %s\n", r.Property, path, r.Exploration, r.Kind, r.Config, r.InputQuoted, r.Message)
	}
	return 1
}
