package main

import (
	"fmt"
	"os"
	"strconv"

	"verif/tree"

	cm "zombiezen.com/go/commonmark"
)

func main() {
	for _, a := range os.Args[1:] {
		s, err := strconv.Unquote(`"` + a + `"`)
		if err != nil {
			panic(err)
		}
		blocks, refs := cm.Parse([]byte(s))
		fmt.Printf("== %q\n%s", s, tree.Dump(blocks, refs, tree.Full))
		for _, ir := range []bool{false, true} {
			r := &cm.HTMLRenderer{ReferenceMap: refs, IgnoreRaw: ir}
			var out []byte
			for i, b := range blocks {
				if i > 0 {
					out = append(out, "\n\n"...)
				}
				out = r.AppendBlock(out, b)
			}
			fmt.Printf("html(ignoreRaw=%v): %q\n", ir, out)
		}
	}
}
