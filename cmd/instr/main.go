// Command instr generates statement-level instrumentation of the repository's
// two packages (commonmark and commonmark/format) as a `go build -overlay`:
//
//	instr -repo /repo -out <dir>
//
// writes instrumented copies of every non-test, non-generated .go file into
// <dir>, an overlay file <dir>/overlay.json mapping the repository paths to
// the copies, and <dir>/points.json describing every inserted point
// (id, file, function, line, coarse). The repository itself is not touched.
//
// The rewrite only inserts call statements `VerifStep(id)` (resp.
// `commonmark.VerifStep(id)` in package format): before each statement of
// each block, case clause and comm clause; before a labelled statement as a
// whole; never between the clauses of a switch/select. A point is "coarse"
// if it is the first statement of a function body or of a loop body.
package main

import (
	"bytes"
	"encoding/json"
	"flag"
	"fmt"
	"go/ast"
	"go/format"
	"go/parser"
	"go/token"
	"os"
	"path/filepath"
	"sort"
	"strings"
)

type point struct {
	ID     int    `json:"id"`
	File   string `json:"file"`
	Func   string `json:"func"`
	Line   int    `json:"line"`
	Coarse bool   `json:"coarse"`
	Entry  bool   `json:"entry"`
}

type instr struct {
	fset   *token.FileSet
	points []point
	file   string
	fn     string
	entry  bool // the next list is a function body
	call   func(id int) ast.Stmt
}

func (in *instr) newPoint(pos token.Pos, coarse bool) ast.Stmt {
	id := len(in.points)
	in.points = append(in.points, point{ID: id, File: in.file, Func: in.fn, Line: in.fset.Position(pos).Line, Coarse: coarse, Entry: coarse && in.entry})
	return in.call(id)
}

func (in *instr) list(stmts []ast.Stmt, firstCoarse bool) []ast.Stmt {
	out := make([]ast.Stmt, 0, 2*len(stmts))
	entry := in.entry
	in.entry = false
	for i, s := range stmts {
		in.entry = entry && i == 0
		out = append(out, in.newPoint(s.Pos(), firstCoarse && i == 0))
		in.entry = false
		in.stmt(s)
		out = append(out, s)
	}
	return out
}

func (in *instr) block(b *ast.BlockStmt, firstCoarse bool) {
	if b == nil {
		return
	}
	b.List = in.list(b.List, firstCoarse)
}

// exprs instruments function literals nested in expressions.
func (in *instr) exprs(n ast.Node) {
	if n == nil {
		return
	}
	ast.Inspect(n, func(m ast.Node) bool {
		if fl, ok := m.(*ast.FuncLit); ok {
			saved := in.fn
			in.fn = saved + ".func"
			in.entry = true
			in.block(fl.Body, true)
			in.fn = saved
			return false
		}
		return true
	})
}

func (in *instr) stmt(s ast.Stmt) {
	switch s := s.(type) {
	case *ast.BlockStmt:
		in.block(s, false)
	case *ast.IfStmt:
		if s.Init != nil {
			in.exprs(s.Init)
		}
		in.exprs(s.Cond)
		in.block(s.Body, false)
		if s.Else != nil {
			in.stmt(s.Else)
		}
	case *ast.ForStmt:
		if s.Init != nil {
			in.exprs(s.Init)
		}
		if s.Cond != nil {
			in.exprs(s.Cond)
		}
		if s.Post != nil {
			in.exprs(s.Post)
		}
		in.block(s.Body, true)
	case *ast.RangeStmt:
		in.exprs(s.X)
		in.block(s.Body, true)
	case *ast.SwitchStmt:
		if s.Init != nil {
			in.exprs(s.Init)
		}
		if s.Tag != nil {
			in.exprs(s.Tag)
		}
		in.clauses(s.Body)
	case *ast.TypeSwitchStmt:
		in.clauses(s.Body)
	case *ast.SelectStmt:
		in.clauses(s.Body)
	case *ast.LabeledStmt:
		in.stmt(s.Stmt)
	case *ast.CaseClause, *ast.CommClause:
		// handled by clauses
	default:
		in.exprs(s)
	}
}

func (in *instr) clauses(body *ast.BlockStmt) {
	for _, c := range body.List {
		switch c := c.(type) {
		case *ast.CaseClause:
			for _, e := range c.List {
				in.exprs(e)
			}
			c.Body = in.list(c.Body, false)
		case *ast.CommClause:
			c.Body = in.list(c.Body, false)
		}
	}
}

func main() {
	repo := flag.String("repo", "/repo", "repository root")
	hooks := flag.String("hooks", "hooks", "directory holding verifsync/ and zz_verif_sync.go (the sync stand-in)")
	out := flag.String("out", "", "output directory (outside the repository)")
	flag.Parse()
	if *out == "" {
		fmt.Fprintln(os.Stderr, "instr: -out required")
		os.Exit(2)
	}
	if err := os.MkdirAll(*out, 0o755); err != nil {
		fatal(err)
	}
	in := &instr{fset: token.NewFileSet()}
	overlay := map[string]string{}
	syncRewrites := 0
	for _, pkg := range []struct{ dir, qualifier string }{{"", ""}, {"format", "commonmark."}} {
		dir := filepath.Join(*repo, pkg.dir)
		entries, err := os.ReadDir(dir)
		if err != nil {
			fatal(err)
		}
		var names []string
		for _, e := range entries {
			n := e.Name()
			if e.IsDir() || !strings.HasSuffix(n, ".go") || strings.HasSuffix(n, "_test.go") || strings.HasSuffix(n, "_string.go") || strings.HasPrefix(n, "zz_verif") {
				continue
			}
			names = append(names, n)
		}
		sort.Strings(names)
		for _, n := range names {
			path := filepath.Join(dir, n)
			src, err := os.ReadFile(path)
			if err != nil {
				fatal(err)
			}
			// Comments are dropped from the generated copy except the leading ones
			// (build constraints and the package doc): go/ast's free-floating
			// comments would otherwise be misplaced by the insertion.
			f, err := parser.ParseFile(in.fset, path, src, parser.ParseComments)
			if err != nil {
				fatal(err)
			}
			var keep []*ast.CommentGroup
			for _, cg := range f.Comments {
				if cg.End() < f.Package {
					keep = append(keep, cg)
				}
			}
			f.Comments = keep
			f.Doc = nil
			// Package sync is replaced by its scheduler-aware stand-in.
			for _, im := range f.Imports {
				if im.Path.Value == `"sync"` {
					im.Path.Value = `"zombiezen.com/go/commonmark/internal/verifsync"`
					if im.Name == nil {
						im.Name = ast.NewIdent("sync")
					}
					syncRewrites++
				}
			}
			in.file = filepath.Join(pkg.dir, n)
			q := pkg.qualifier
			in.call = func(id int) ast.Stmt {
				var fun ast.Expr = ast.NewIdent("VerifStep")
				if q != "" {
					fun = &ast.SelectorExpr{X: ast.NewIdent("commonmark"), Sel: ast.NewIdent("VerifStep")}
				}
				return &ast.ExprStmt{X: &ast.CallExpr{Fun: fun, Args: []ast.Expr{&ast.BasicLit{Kind: token.INT, Value: fmt.Sprint(id)}}}}
			}
			for _, d := range f.Decls {
				switch d := d.(type) {
				case *ast.FuncDecl:
					in.fn = d.Name.Name
					if d.Recv != nil && len(d.Recv.List) > 0 {
						in.fn = recvName(d.Recv.List[0].Type) + "." + d.Name.Name
					}
					in.entry = true
					in.block(d.Body, true)
				case *ast.GenDecl:
					in.fn = "(package-level)"
					in.exprs(d)
				}
			}
			var buf bytes.Buffer
			if err := format.Node(&buf, in.fset, f); err != nil {
				fatal(fmt.Errorf("%s: %v", path, err))
			}
			dst := filepath.Join(*out, strings.ReplaceAll(in.file, string(filepath.Separator), "__"))
			if err := os.WriteFile(dst, buf.Bytes(), 0o644); err != nil {
				fatal(err)
			}
			overlay[path] = dst
		}
	}
	absHooks, err := filepath.Abs(*hooks)
	if err != nil {
		fatal(err)
	}
	for _, m := range [][2]string{
		{filepath.Join(*repo, "internal", "verifsync", "verifsync.go"), filepath.Join(absHooks, "verifsync", "verifsync.go")},
		{filepath.Join(*repo, "zz_verif_sync.go"), filepath.Join(absHooks, "zz_verif_sync.go")},
	} {
		if _, err := os.Stat(m[1]); err != nil {
			fatal(err)
		}
		overlay[m[0]] = m[1]
	}
	ov, _ := json.MarshalIndent(map[string]any{"Replace": overlay}, "", " ")
	if err := os.WriteFile(filepath.Join(*out, "overlay.json"), ov, 0o644); err != nil {
		fatal(err)
	}
	pts, _ := json.Marshal(in.points)
	if err := os.WriteFile(filepath.Join(*out, "points.json"), pts, 0o644); err != nil {
		fatal(err)
	}
	fmt.Printf("instr: %d points in %d files, %d imports of sync redirected to the stand-in\n", len(in.points), len(overlay)-2, syncRewrites)
}

func recvName(e ast.Expr) string {
	switch e := e.(type) {
	case *ast.StarExpr:
		return recvName(e.X)
	case *ast.Ident:
		return e.Name
	case *ast.IndexExpr:
		return recvName(e.X)
	}
	return "?"
}

func fatal(err error) {
	fmt.Fprintln(os.Stderr, "instr:", err)
	os.Exit(2)
}
