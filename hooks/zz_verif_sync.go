//go:build verif

package commonmark

import "zombiezen.com/go/commonmark/internal/verifsync"

// Generated-build only (added through the instrumentation overlay): blocking
// operations of the sync stand-in report through VerifStep(-1).
func init() { verifsync.Hook = VerifStep }
