// Package verifsync stands in for package sync in the statement-instrumented
// build of the repository (cmd/instr rewrites the import path; the package is
// added through `go build -overlay`, never committed to the repository).
//
// Blocking operations do not park the goroutine: they retry and, between
// attempts, report "blocked" through Hook (id -1), so that the cooperative
// scheduler of check C19 can hand control to another harness thread (a thread
// preempted while holding a lock would otherwise deadlock the exploration) and
// can recognise a deadlock when every live thread reports blocked. Pool is a
// deterministic LIFO free list that is never cleared, so that an object put
// back by one thread is handed to the next Get of any thread in every run.
package verifsync

import (
	"runtime"
	"sync"
)

// Hook is set by the commonmark package (overlay file zz_verif_sync.go) to
// VerifStep; Blocked id is -1.
var Hook func(id int)

// yield marks a synchronisation operation: the scheduler may switch threads
// before and after each one (id -2), which together with a race-detector pass
// for unsynchronised accesses is the classic sufficient set of scheduling
// points; the statement-level points of the repository's own code come on top.
func yield() {
	if h := Hook; h != nil {
		h(-2)
	}
}

func blocked() {
	if h := Hook; h != nil {
		h(-1)
	}
	runtime.Gosched()
}

type Locker = sync.Locker
type Cond = sync.Cond
type Map = sync.Map

func NewCond(l Locker) *Cond { return sync.NewCond(l) }

type Mutex struct{ mu sync.Mutex }

func (m *Mutex) Lock() {
	yield()
	for !m.mu.TryLock() {
		blocked()
	}
	yield()
}
func (m *Mutex) Unlock()       { yield(); m.mu.Unlock(); yield() }
func (m *Mutex) TryLock() bool { return m.mu.TryLock() }

type RWMutex struct{ mu sync.RWMutex }

func (m *RWMutex) Lock() {
	yield()
	for !m.mu.TryLock() {
		blocked()
	}
	yield()
}
func (m *RWMutex) Unlock()       { yield(); m.mu.Unlock(); yield() }
func (m *RWMutex) TryLock() bool { return m.mu.TryLock() }
func (m *RWMutex) RLock() {
	yield()
	for !m.mu.TryRLock() {
		blocked()
	}
	yield()
}
func (m *RWMutex) RUnlock()        { yield(); m.mu.RUnlock(); yield() }
func (m *RWMutex) TryRLock() bool  { return m.mu.TryRLock() }
func (m *RWMutex) RLocker() Locker { return (*rlocker)(m) }

type rlocker RWMutex

func (r *rlocker) Lock()   { (*RWMutex)(r).RLock() }
func (r *rlocker) Unlock() { (*RWMutex)(r).RUnlock() }

type Once struct {
	m    Mutex
	done bool
}

func (o *Once) Do(f func()) {
	o.m.Lock()
	defer o.m.Unlock()
	if !o.done {
		defer func() { o.done = true }()
		f()
	}
}

func OnceFunc(f func()) func() {
	var once Once
	return func() { once.Do(f) }
}

func OnceValue[T any](f func() T) func() T {
	var once Once
	var v T
	return func() T {
		once.Do(func() { v = f() })
		return v
	}
}

func OnceValues[T1, T2 any](f func() (T1, T2)) func() (T1, T2) {
	var once Once
	var v1 T1
	var v2 T2
	return func() (T1, T2) {
		once.Do(func() { v1, v2 = f() })
		return v1, v2
	}
}

type Pool struct {
	New   func() any
	mu    sync.Mutex
	items []any
}

func (p *Pool) Get() any {
	yield()
	defer yield()
	p.mu.Lock()
	if n := len(p.items); n > 0 {
		v := p.items[n-1]
		p.items = p.items[:n-1]
		p.mu.Unlock()
		return v
	}
	p.mu.Unlock()
	if p.New != nil {
		return p.New()
	}
	return nil
}

func (p *Pool) Put(v any) {
	if v == nil {
		return
	}
	yield()
	defer yield()
	p.mu.Lock()
	p.items = append(p.items, v)
	p.mu.Unlock()
}

type WaitGroup struct {
	mu sync.Mutex
	n  int
}

func (w *WaitGroup) Add(d int) {
	w.mu.Lock()
	w.n += d
	neg := w.n < 0
	w.mu.Unlock()
	if neg {
		panic("sync: negative WaitGroup counter")
	}
}
func (w *WaitGroup) Done() { w.Add(-1) }
func (w *WaitGroup) Wait() {
	for {
		w.mu.Lock()
		n := w.n
		w.mu.Unlock()
		if n == 0 {
			return
		}
		blocked()
	}
}
