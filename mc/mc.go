// Package mc is a stateless, replay-based, depth-first explorer of choice
// sequences ("stateless model checking of a closed system").
//
// A driver is a deterministic function that calls the code under test and asks
// the explorer for every decision of the environment through Exec.Choose /
// Exec.ChooseFree.  The explorer executes every complete choice sequence
// exactly once: it runs the driver on a prefix, takes choice 0 afterwards,
// records (arity, taken) at every choice point, and for every point at or
// beyond the prefix and every admissible alternative recurses on
// choices[:i]+[alt].
//
// Two bounding disciplines:
//   - ChooseFree points are scope-bounded: every alternative is explored (the
//     driver itself bounds the depth, e.g. "stop after n tokens").
//   - Choose points are deviation-bounded: choice 0 is the default answer and
//     every alternative costs 1; all executions with total cost <= Bound are
//     explored (Bound < 0 means unbounded).
package mc

import (
	"fmt"
	"time"
)

// ErrNondeterministic is raised (as a panic value of type *FrameworkError)
// when a replayed prefix meets a choice point of a different arity.
type FrameworkError struct{ Msg string }

func (e *FrameworkError) Error() string { return "framework error: " + e.Msg }

type point struct {
	arity int
	taken int
	free  bool
}

// Exec is one execution of a driver.
type Exec struct {
	prefix []int
	points []point
	// User is scratch space for the driver (violation collection etc.).
	User any
}

func (x *Exec) choose(n int, free bool) int {
	if n <= 0 {
		panic(&FrameworkError{fmt.Sprintf("Choose(%d)", n)})
	}
	i := len(x.points)
	c := 0
	if i < len(x.prefix) {
		c = x.prefix[i]
		if c >= n {
			panic(&FrameworkError{fmt.Sprintf("nondeterministic driver: replayed choice %d at point %d but arity is %d", c, i, n)})
		}
	}
	x.points = append(x.points, point{arity: n, taken: c, free: free})
	return c
}

// Choose returns a deviation-bounded choice in [0,n); 0 is the default answer.
func (x *Exec) Choose(n int) int { return x.choose(n, false) }

// ChooseFree returns a scope-bounded choice in [0,n); all alternatives are explored.
func (x *Exec) ChooseFree(n int) int { return x.choose(n, true) }

// Choices returns the complete choice sequence of this execution so far.
func (x *Exec) Choices() []int {
	out := make([]int, len(x.points))
	for i, p := range x.points {
		out[i] = p.taken
	}
	return out
}

// Driver is one closed system.
type Driver func(x *Exec)

// Explorer holds the exploration parameters and counters.
type Explorer struct {
	// Bound is the deviation bound for Choose points (<0: unbounded).
	Bound int
	// Shard/NShards/CutDepth: the tree is cut at recursion depth CutDepth;
	// subtrees rooted there are numbered in DFS order and subtree j is
	// explored by shard j%NShards.  Executions above the cut are run by every
	// shard (to discover the tree) but reported (After called) only by shard 0.
	Shard, NShards, CutDepth int
	// Deadline, if non-zero, stops the exploration (Exhaustive=false).
	Deadline time.Time
	// After is called after every execution owned by this shard.
	After func(x *Exec)
	// Stop can be set by After to end the exploration early.
	Stop bool

	// Counters.
	Executions  int64 // executions owned by this shard
	States      int64 // choice-tree nodes first visited by this shard's executions
	Transitions int64
	MaxDepth    int
	Exhaustive  bool
	cutCounter  int64
}

// Run executes the driver once on the given complete choice sequence.
func Run(d Driver, choices []int) *Exec {
	x := &Exec{prefix: choices}
	d(x)
	if len(x.points) < len(choices) {
		panic(&FrameworkError{fmt.Sprintf("nondeterministic driver: replay used %d of %d choices", len(x.points), len(choices))})
	}
	return x
}

// Explore enumerates every choice sequence of d within the bounds.
func (e *Explorer) Explore(d Driver) {
	if e.NShards <= 0 {
		e.NShards = 1
	}
	e.Exhaustive = true
	if e.NShards > 1 && e.CutDepth <= 0 {
		e.CutDepth = 2
		// A flat exploration (one wide first choice, e.g. "which block of 256
		// code points") has nearly all its executions at depth 1, which every
		// shard would repeat: cut there instead.
		if x := Run(d, nil); len(x.points) > 0 && x.points[0].arity >= 4*e.NShards {
			e.CutDepth = 1
		}
	}
	e.rec(d, nil, 0, e.NShards == 1 || e.Shard == 0)
}

func (e *Explorer) rec(d Driver, prefix []int, depth int, owned bool) {
	if e.Stop {
		return
	}
	if !e.Deadline.IsZero() && e.Executions&0xff == 0 && time.Now().After(e.Deadline) {
		e.Exhaustive = false
		e.Stop = true
		return
	}
	x := Run(d, prefix)
	if owned {
		e.Executions++
		newNodes := int64(len(x.points) - len(prefix))
		if len(prefix) == 0 {
			e.States++ // root
		} else {
			newNodes++ // the alternative edge that created this prefix
		}
		e.States += newNodes
		e.Transitions += newNodes
		if len(x.points) > e.MaxDepth {
			e.MaxDepth = len(x.points)
		}
		if e.After != nil {
			e.After(x)
		}
	}
	cost := 0
	for i := 0; i < len(x.points); i++ {
		p := x.points[i]
		if i >= len(prefix) {
			for alt := 1; alt < p.arity; alt++ {
				if !p.free && e.Bound >= 0 && cost+1 > e.Bound {
					break
				}
				child := make([]int, i+1)
				for j := 0; j < i; j++ {
					child[j] = x.points[j].taken
				}
				child[i] = alt
				childOwned := owned
				if depth+1 == e.CutDepth && e.NShards > 1 {
					mine := int(e.cutCounter%int64(e.NShards)) == e.Shard
					e.cutCounter++
					if !mine {
						continue
					}
					childOwned = true
				} else if depth+1 < e.CutDepth && e.NShards > 1 {
					childOwned = e.Shard == 0
				}
				e.rec(d, child, depth+1, childOwned)
				if e.Stop {
					return
				}
			}
		}
		if !p.free && p.taken != 0 {
			cost++
		}
	}
}
