// Package spaces declares the input alphabets (token sets) that the checks
// enumerate exhaustively, and the unique-decodability test that makes
// "number of token sequences" equal "number of distinct byte strings".
package spaces

import (
	"fmt"
	"sort"
)

// Space is a token alphabet. Inputs are all concatenations of up to n tokens.
type Space struct {
	Name   string
	Tokens []string
	Doc    string
	// Suffix is appended to every token sequence (e.g. the reference
	// definitions that the tokens' reference links resolve against).
	Suffix string
	// Prefix is put in front of every token sequence.
	Prefix string
	// Ambiguous marks an alphabet that is deliberately not uniquely decodable
	// (whole constructs next to their pieces). Its inputs are enumerated through
	// Canonical: of all token sequences that spell the same byte string only the
	// one with the fewest tokens (the lexicographically first among those) is
	// executed, so executions are still distinct inputs.
	Ambiguous bool
}

// Canonical reports whether the token sequence seq (indices into s.Tokens) is
// the canonical spelling of the byte string it produces.
func (s Space) Canonical(seq []int) bool {
	var str string
	for _, k := range seq {
		str += s.Tokens[k]
	}
	// best[i]: canonical tokenization of str[i:], nil if none
	n := len(str)
	best := make([][]int, n+1)
	ok := make([]bool, n+1)
	ok[n] = true
	best[n] = []int{}
	for i := n - 1; i >= 0; i-- {
		for k, t := range s.Tokens {
			if len(t) <= n-i && str[i:i+len(t)] == t && ok[i+len(t)] {
				cand := append([]int{k}, best[i+len(t)]...)
				if !ok[i] || len(cand) < len(best[i]) || (len(cand) == len(best[i]) && lessInts(cand, best[i])) {
					best[i], ok[i] = cand, true
				}
			}
		}
	}
	if !ok[0] || len(best[0]) != len(seq) {
		return false
	}
	for i := range seq {
		if seq[i] != best[0][i] {
			return false
		}
	}
	return true
}

func lessInts(a, b []int) bool {
	for i := range a {
		if a[i] != b[i] {
			return a[i] < b[i]
		}
	}
	return false
}

func sp(name, doc string, toks ...string) Space { return Space{Name: name, Tokens: toks, Doc: doc} }

var (
	// B: bytes / lexical.
	B = sp("B", "bytes/lexical: letters, whitespace, CR/LF, NUL, a split two-byte UTF-8 character, block and inline punctuation",
		"a", " ", "\n", "\r", "\t", "\x00", "\xc3", "\xa9", ">", "-", "#", "`", "*", "[", "]")
	// I: inline / lexical.
	I = sp("I", "inline/lexical punctuation",
		"a", " ", "\n", "*", "_", "`", "[", "]", "(", ")", "<", ">", "!", "\\", "&", ";", "\"", ":", "/", "#", "1", ".")
	// L: line templates.
	L = sp("L", "line templates, each ending in LF (the last line is also tried without it through token 'a' etc.)",
		"a\n", "\n", "  a\n", "    a\n", "\ta\n", "> a\n", ">\n", ">  \n", "- a\n", "-\n", "  - a\n", "+ a\n",
		"1. a\n", "2) a\n", "   b\n", "# a\n", "#\n", "===\n", "---\n", "***\n", "```\n", "~~~ x\n", "<div>\n",
		"<!--\n", "-->\n", "[a]: /u\n", "[a]\n", "\"t\"\n", "  \n", "c")
	XHead = sp("X-head", "ATX content range, headings in containers",
		"- ", "> ", "<b>", "\n", " ", "a", "#", "`", "\\")
	XRef = sp("X-ref", "reference definitions, labels, multi-block cuts from one paragraph",
		"[a]", "[", "]", ": ", "/u", " \"t\"", "'t", "\n", "> ", "  ", "b", "===\n")
	XLink = sp("X-link", "inline links, titles/destinations across lines in containers",
		"[a](", "/u", "<u v>", " \"t", "u\"", ")", "\n", "> ", "- ", "  ", "x", "\\")
	XCode = sp("X-code", "code spans, fences, EOF in backticks",
		"`", "~~~", "a", " ", "\n", "> ", "-")
	XHTML = sp("X-html", "raw HTML: tags, comments, CDATA, declarations, PIs, stray <",
		"<", ">", "/", "!--", "-->", "->", "![CDATA[", "]]>", "?", "!D", "script", "a", " ", "\n", "=\"x\"")
	XEmph = sp("X-emph", "delimiter runs with ASCII/non-ASCII punctuation, space, letter",
		"*", "_", "a", " ", ".", "“", " ", "é")
	XList = sp("X-list", "list items: continuation, looseness, tabs",
		"- ", "1. ", "10) ", "\t", " ", "a", "\n", "> ", "+")
	XNul = sp("X-nul", "NUL padding and replacement",
		"\x00", "a", "\n", "\r", "[", "]", "(", ")", "`", "é", " ", "\\")
	XNulRef = sp("X-nulref", "NUL inside link labels, destinations and titles of definitions and links",
		"\x00", "a", "[", "]", "]: ", "/u", "\n", "(", ")", " ", "\"")
	// XPhrase works at the level of whole constructs, so that a handful of tokens
	// reaches interactions between complete emphasis, code spans, links, images,
	// raw tags, entities, references and their definitions inside containers.
	XPhrase = sp("X-phrase", "whole inline constructs and container prefixes",
		"*a*", "**b**", "`c`", "[d](/e)", "![f](/g \"h\")", "<i>", "&amp;", "[r]", "[r]: /u\n", "\n", "> ", "- ", "\\\n", "x", " ")
	// XInfo: info strings and other places where "blank" and "white space" are
	// decided: Unicode spaces, form feed, character references that decode to
	// white space, next to both fence characters.
	XInfo = sp("X-info", "code fences with info strings made of ASCII and Unicode white space, entities that decode to white space, backslashes",
		"```", "~~~", "\f", "&#32;", "&nbsp;", " ", "a", "\n", "\u00a0", "\\", "&Tab;", "\t")
	// XRefHead: reference links and images at the end of headings and paragraphs
	// inside containers; the definitions they resolve against follow as suffix.
	XRefHead = Space{Name: "X-refhead", Doc: "full/collapsed/shortcut reference links and images ending headings and lines inside containers, definitions appended",
		Tokens: []string{"> ", "- ", "# ", "[a][r]", "![a][r]", "[r]", "[r][]", "\n", "x", "  ", "*"}, Suffix: "\n\n[r]: /u 't'\n"}
	// XMl: inline constructs that continue on the next line (raw tags, code
	// spans, link destinations and titles, emphasis).
	XMl = sp("X-ml", "inline constructs spanning lines", "a", " ", "\n", "<b", "c>", "`", "[x](", "/u", ")", " \"t", "u\"", "*")
	// XDefs: several definitions, duplicates among them, and their uses.
	XDefs = sp("X-defs", "duplicate and distinct definitions with their uses", "[a]: /1\n", "[a]: /2\n", "[b]: /3\n", "[b]", "[a]", "\n", "x", "> ", "- ")
	// XRefTail: the same uses at the very end of the input (no final line ending
	// unless a token supplies it); the definitions come first.
	XRefTail = Space{Name: "X-reftail", Doc: "reference links and images as the last thing of the input, definitions in front",
		Tokens: []string{"> ", "- ", "# ", "[a][r]", "![a][r]", "[r]", "[r][]", "![r][]", "\n", "x", " ", "*"}, Prefix: "[r]: /u 't'\n\n"}
	XEol = sp("X-eol", "CR / CRLF / LF paths",
		"a", "\r", "\n", " ", "\\", "`", ">", "-", "\t")
	// Inj: attribute-injection alphabet for C07.
	Inj = sp("Inj", "attribute/markup injection",
		"\"", "'", "<", ">", "&", "=", " ", "a", "![", "[", "](", ")", "`", "\\", ";", "#", "x", "](/u \"", "\"\t)", "\xf0", "\xe2")
	// XEnt: character references in text, alt, title, destination, code, info string.
	XEnt = sp("X-ent", "character references (valid, invalid, legacy-prefix names) in text and attributes",
		"&", "#", "x", "1", "a", ";", "G", "amp", "not", "it", "copy", "![", "](/u)", "\"", "`", "\n", "[", "<b x=\"y\">")
	// XWs: characters that are white space to Unicode or to Go's unicode.IsSpace but not to CommonMark's blank-line rule.
	XWs = sp("X-ws", "white space look-alikes: form feed, vertical tab, NEL, NBSP, EM SPACE next to real blank-line characters",
		"a", " ", "\n", "\t", "\r", "\f", "\v", "\u0085", "\u00a0", "\u2003", ">", "-")
	// XNest: brackets of links and images nested in each other.
	XNest = sp("X-nest", "nested link / image brackets",
		"[", "![", "a", "](u)", "]", " ", "*")
	// XMlRef: reference links and definitions whose labels span lines, and titles that open at the end of a line.
	XMlRef = sp("X-mlref", "multi-line labels and titles",
		"[x][a", "\nb]", "[a\nb]: /u\n", "[a b]", "\n", "> ", "c", "[y](/u \"", "t", "\")", "  ")
	// Emph5: the five-symbol emphasis alphabet of C11.
	Emph5 = sp("Emph5", "emphasis: * _ letter space punctuation", "*", "_", "a", " ", ".")
	// Emph4 / Emph3: smaller alphabets explored deeper (interactions between
	// several failed and successful closers need 11 and more symbols).
	Emph4 = sp("Emph4", "emphasis: * _ letter space", "*", "_", "a", " ")
	Emph3 = sp("Emph3", "emphasis: * _ letter", "*", "_", "a")
	// XAuto: autolinks (URI and e-mail) and near misses, with characters that
	// NormalizeURI must percent-encode and characters that end an autolink.
	XAuto = sp("X-auto", "URI and e-mail autolinks with characters that need percent-encoding or escaping",
		"<", ">", "a", "@a>", "ab:", ".", ":", "^", "%", "2", "-", " ", "&", "\\", "\"")
	// XDRuns: whole delimiter runs with their flanking context built in, so that
	// every token pushes exactly one entry of a known class (opener, closer, both;
	// length 1, 2, 3; star or underscore) on the delimiter stack: stacks with
	// several failed searches, deletions and re-searches are reached in 5-7 tokens.
	// The prefix and suffix letters keep the string one paragraph that neither
	// starts nor ends with a space.
	XDRuns = Space{Name: "X-druns", Doc: "delimiter runs with fixed flanking context: openers, closers and both-flanking runs of length 1-3 of * and _",
		Tokens: []string{" *a", " **a", " ***a", "a* ", "a** ", "a*** ", "a*a", "a**a", "a***a", " _a", " __a", "a_ ", "a__ ", "._.", ".__."},
		Prefix: "x", Suffix: "x"}
)

// All lists every declared space (for the start-up self test).
var All = []Space{B, I, L, XHead, XRef, XLink, XCode, XHTML, XEmph, XList, XNul, XNulRef, XPhrase, XInfo, XRefHead, XRefTail, XMl, XDefs, XEol, Inj, XEnt, XWs, XNest, XMlRef, Emph5, Emph4, Emph3, XDRuns, XAuto}

// ByName finds a space.
func ByName(name string) (Space, bool) {
	for _, s := range All {
		if s.Name == name {
			return s, true
		}
	}
	return Space{}, false
}

// Without returns a copy of the space without the given tokens.
func (s Space) Without(drop ...string) Space {
	out := Space{Name: s.Name, Doc: s.Doc, Suffix: s.Suffix, Prefix: s.Prefix}
	for _, t := range s.Tokens {
		skip := false
		for _, d := range drop {
			if t == d {
				skip = true
			}
		}
		if !skip {
			out.Tokens = append(out.Tokens, t)
		}
	}
	return out
}

// Count returns the number of token sequences of length <= n.
func (s Space) Count(n int) int64 {
	k := int64(len(s.Tokens))
	total, pow := int64(0), int64(1)
	for i := 0; i <= n; i++ {
		total += pow
		pow *= k
	}
	return total
}

// UniquelyDecodable runs the Sardinas–Patterson test.
func UniquelyDecodable(tokens []string) error {
	code := map[string]bool{}
	for _, t := range tokens {
		if t == "" {
			return fmt.Errorf("empty token")
		}
		if code[t] {
			return fmt.Errorf("duplicate token %q", t)
		}
		code[t] = true
	}
	dangling := func(a, b map[string]bool) map[string]bool {
		out := map[string]bool{}
		for x := range a {
			for y := range b {
				if len(y) > len(x) && y[:len(x)] == x {
					out[y[len(x):]] = true
				}
			}
		}
		return out
	}
	// S1 = C^-1 C \ {eps}
	cur := dangling(code, code)
	seen := map[string]bool{}
	for len(cur) > 0 {
		for w := range cur {
			if code[w] {
				return fmt.Errorf("ambiguous: dangling suffix %q is a token", w)
			}
		}
		key := setKey(cur)
		if seen[key] {
			return nil
		}
		seen[key] = true
		next := dangling(code, cur)
		for w := range dangling(cur, code) {
			next[w] = true
		}
		cur = next
	}
	return nil
}

func setKey(m map[string]bool) string {
	ks := make([]string, 0, len(m))
	for k := range m {
		ks = append(ks, k)
	}
	sort.Strings(ks)
	s := ""
	for _, k := range ks {
		s += fmt.Sprintf("%q,", k)
	}
	return s
}

// SelfTest checks every declared space.
func SelfTest() error {
	for _, s := range All {
		if s.Ambiguous {
			continue
		}
		if err := UniquelyDecodable(s.Tokens); err != nil {
			return fmt.Errorf("space %s: %v", s.Name, err)
		}
	}
	return nil
}

// Family is a parametric input family: Gen(k) for k = 1..K, each enumerated completely.
type Family struct {
	Name string
	Gen  func(k int) []byte
	// MaxK, if non-zero, is the largest k this family is used with (members
	// whose size grows quadratically in k).
	MaxK int
}

func rep(s string, k int) []byte {
	out := make([]byte, 0, len(s)*k)
	for i := 0; i < k; i++ {
		out = append(out, s...)
	}
	return out
}

func cat(parts ...[]byte) []byte {
	var out []byte
	for _, p := range parts {
		out = append(out, p...)
	}
	return out
}

// Families returns the parametric families of DESIGN.md section 4.4: t^k for
// every token of B and I, open^k close^k pairs, and growing-depth documents.
func Families() []Family {
	var fs []Family
	seen := map[string]bool{}
	for _, sp := range []Space{B, I} {
		for _, t := range sp.Tokens {
			if seen[t] {
				continue
			}
			seen[t] = true
			t := t
			fs = append(fs, Family{Name: fmt.Sprintf("%q^k", t), Gen: func(k int) []byte { return rep(t, k) }})
		}
	}
	pair := func(a, mid, b string) {
		fs = append(fs, Family{Name: fmt.Sprintf("%q^k %q %q^k", a, mid, b), Gen: func(k int) []byte { return cat(rep(a, k), []byte(mid), rep(b, k)) }})
	}
	pair("[", "a", "]")
	pair("[", "", "]")
	pair("(", "a", ")")
	pair("[a](", "", ")")
	pair("*", "a", "*")
	pair("_", "a", "_")
	pair("**", "a", "**")
	pair("*a ", "", "*")
	pair("_a ", "", "_")
	pair("`", "a", "`")
	pair("`", "a", "")
	pair("> ", "a", "")
	pair(">", "a", "")
	pair("- ", "a", "")
	pair("1. ", "a", "")
	pair("<a ", "", ">")
	pair("<", "a", ">")
	pair("![", "a", "]")
	pair("![", "a", "](u)")
	pair("[", "a", "](u)")
	pair("[a][", "", "]")
	pair("\\", "a", "")
	pair("&", "amp;", ";")
	pair("&#", "1;", "")
	pair("a\n", "", "")
	pair("a\r\n", "", "")
	pair("a\r", "", "")
	pair("- a\n", "", "")
	pair("- a\n\n", "", "")
	pair("> a\n", "", "")
	pair("[a]: /u\n", "[a]", "")
	pair("[a]: /u\n", "", "[a]")
	pair("# a\n", "", "")
	pair("a\n===\n", "", "")
	pair("```\n", "", "")
	pair("    a\n", "", "")
	pair("\ta\n", "", "")
	pair("<div>\n", "", "")
	pair("<!--\n", "", "-->")
	pair("*a*\n", "", "")
	pair("a\x00", "", "")
	pair("\x00\n", "", "")
	pair("a  \n", "", "")
	pair("a\\\n", "", "")
	pair("<b>", "a", "</b>")
	pair("<http://a>", "", "")
	pair("<a@b.c>", "", "")
	pair("- ", "", "")
	pair("-\n", "", "")
	pair("1.\n", "", "")
	pair("[a", "", "")
	pair("![a", "", "")
	pair("[a](/u \"", "", "")
	pair("[a](<", "", "")
	pair("<a href=\"", "", "")
	pair("<!-- ", "", "")
	pair("<![CDATA[", "", "")
	pair("<?", "", "")
	// Growing depth: nested lists and quotes spelled over several lines.
	fs = append(fs, Family{Name: "nested bullet lists, depth k", MaxK: 192, Gen: func(k int) []byte {
		var out []byte
		for i := 0; i < k; i++ {
			out = append(out, rep("  ", i)...)
			out = append(out, "- a\n"...)
		}
		return out
	}})
	fs = append(fs, Family{Name: "nested quotes, depth growing per line", Gen: func(k int) []byte {
		var out []byte
		for i := 1; i <= k && i <= 64; i++ {
			out = append(out, rep(">", i)...)
			out = append(out, " a\n"...)
		}
		out = append(out, rep("> ", k)...)
		return append(out, "b\n"...)
	}})
	fs = append(fs, Family{Name: "k-digit ordered marker", Gen: func(k int) []byte { return cat(rep("1", k), []byte(". a\n")) }})
	fs = append(fs, Family{Name: "k # then text", Gen: func(k int) []byte { return cat(rep("#", k), []byte(" a "), rep("#", k), []byte("\n")) }})
	fs = append(fs, Family{Name: "label of k letters, defined and used", Gen: func(k int) []byte {
		l := rep("a", k)
		return cat([]byte("["), l, []byte("]: /u\n\n["), l, []byte("]\n"))
	}})
	fs = append(fs, Family{Name: "email with k-letter domain label", Gen: func(k int) []byte {
		return cat([]byte("<a@"), rep("b", k), []byte(".c>\n"))
	}})
	fs = append(fs, Family{Name: "fence of k backticks with shorter closer", Gen: func(k int) []byte {
		return cat(rep("`", k+2), []byte("\na\n"), rep("`", k+1), []byte("\n"))
	}})
	fs = append(fs, Family{Name: "k spaces of indentation then a list", Gen: func(k int) []byte {
		return cat([]byte("- a\n"), rep(" ", k), []byte("- b\n"))
	}})
	fs = append(fs, Family{Name: "k tabs then text in a list", Gen: func(k int) []byte {
		return cat([]byte("- a\n\n"), rep("\t", k), []byte("b\n"))
	}})
	return fs
}
