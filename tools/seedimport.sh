#!/bin/bash
# tools/seedimport.sh <Cnn> <wt-dir> <n> <demo-dir> <checks...> : import mutant n of an agent's worktree into seeded/<Cnn>-m<n>/ and confirm it
set -u
pid="$1"; wt="$2"; n="$3"; ddir="$4"; shift 4
dst="/verif/seeded/$pid-m$((n + ${OFFSET:-0}))"
mkdir -p "$dst"
cp "$wt/mutants-out/m$n.diff" "$dst/patch.diff"
cp "$wt/mutants-out/m${n}_demo_test.go" "$dst/demo_test.go"
cp "$wt/mutants-out/m$n.txt" "$dst/notes.txt"
tname=$(grep -o 'func Test[A-Za-z0-9_]*' "$dst/demo_test.go" | head -1 | sed 's/func //')
echo "== $pid m$n test=$tname"
/verif/tools/seedtest.sh "$dst/patch.diff" "$dst/demo_test.go" "$ddir" "$tname" "$@" 2>&1 | grep -v "WARNING conda" | tee "$dst/confirm.log"
python3 /verif/tools/mkmeta.py "$dst" | grep -v "WARNING conda"
