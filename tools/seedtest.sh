#!/bin/bash
# tools/seedtest.sh <patch.diff> <demo_test.go> <demo-dir: . or format> <TestName-regex> <Cnn> [<Cnn>...]
# Confirms a property-breaking change in a scratch copy of /repo (outside /repo and /verif):
#   suite with the change passes; demo fails with the change and passes without it;
# then runs the given checks (quick) against the changed copy and prints which report a VIOLATION.
set -u
patch=$(realpath "$1"); demo=$(realpath "$2"); ddir="$3"; tname="$4"; shift 4
export GOFLAGS=-mod=mod GOPROXY=off GOSUMDB=off GOTOOLCHAIN=local
d=$(mktemp -d /tmp/seed-XXXXXX)
tag=$(echo -n "$d/repo" | md5sum | cut -c1-8)
trap 'rm -rf "$d"; rm -f /verif/bin/*-$tag /verif/bin/alt-$tag.* /verif/bin/points-$tag.json' EXIT
mkdir "$d/repo" && (cd /repo && git ls-files -z | xargs -0 cp --parents -t "$d/repo")
cp "$demo" "$d/repo/$ddir/zz_demo_test.go"
if (cd "$d/repo/$ddir" && go test -vet=off -count=1 -run "$tname" . >"$d/demo0.log" 2>&1); then echo "demo without change: pass"; else echo "demo without change: FAIL (bad demo)"; tail -5 "$d/demo0.log"; fi
if ! (cd "$d/repo" && git apply --stat "$patch" >/dev/null 2>&1 && patch -p1 --quiet < "$patch"); then echo "PATCH-FAILED"; exit 3; fi
if (cd "$d/repo/$ddir" && go test -vet=off -count=1 -run "$tname" . >"$d/demo1.log" 2>&1); then echo "demo with change: pass (mutant does not show)"; else echo "demo with change: FAIL (as intended)"; fi
rm "$d/repo/$ddir/zz_demo_test.go"
if (cd "$d/repo" && go test -vet=off -count=1 ./... >"$d/suite.log" 2>&1); then echo "suite with change: pass"; else echo "suite with change: FAIL"; tail -5 "$d/suite.log"; fi
for c in "$@"; do
  out=$(cd /verif && VERIF_REPO="$d/repo" VERIF_EVIDENCE_DIR="$d/ev" ./run "$c" quick 2>&1)
  rc=$?
  echo "CHECK $c rc=$rc violations=$(echo "$out" | grep -c '^VIOLATION') :: $(echo "$out" | grep -m1 -A2 '^VIOLATION' | tr '\n' ' ' | cut -c1-300)"
done
