#!/bin/bash
# tools/mutant.sh <patch.diff> <Cnn> [<Cnn>...]   (env NOTEST=1 skips the repo's own suite)
# Copies /repo to a scratch directory, applies the patch, runs the repo's test
# suite (the mutant only counts if it passes) and the given checks (quick) with
# VERIF_REPO pointing at the copy; removes the copy afterwards.
set -u
patch=$(realpath "$1"); shift
export GOFLAGS=-mod=mod GOPROXY=off GOSUMDB=off GOTOOLCHAIN=local
d=$(mktemp -d /tmp/mut-XXXXXX)
trap 'rm -rf "$d"; rm -f /verif/bin/verif-$(echo -n "$d/repo" | md5sum | cut -c1-8) /verif/bin/alt-$(echo -n "$d/repo" | md5sum | cut -c1-8).*' EXIT
git -C /repo worktree list >/dev/null
mkdir "$d/repo" && (cd /repo && git ls-files -z | xargs -0 cp --parents -t "$d/repo")
(cd /repo && git diff --quiet) || echo "note: /repo working tree is dirty; copying files as they are"
if ! (cd "$d/repo" && patch -p1 --quiet < "$patch"); then echo "PATCH-FAILED $patch"; exit 3; fi
if [ -z "${NOTEST:-}" ]; then
  if (cd "$d/repo" && go test -vet=off -count=1 ./... >"$d/test.log" 2>&1); then echo "suite: pass"; else echo "suite: FAIL"; tail -20 "$d/test.log"; fi
fi
for c in "$@"; do
  out=$(cd /verif && VERIF_REPO="$d/repo" VERIF_EVIDENCE_DIR="$d/ev" ./run "$c" quick 2>&1)
  rc=$?
  echo "$c rc=$rc $(echo "$out" | grep -c '^VIOLATION') violation lines; $(echo "$out" | grep -m1 -A2 '^VIOLATION' | tr '\n' ' ' | cut -c1-400)"
  echo "$out" | tail -1
done
