#!/bin/bash
# tools/reseed.sh <seeded-id> <Cnn> [<Cnn>...]: re-confirm an existing seeded change and re-run the given checks on it
set -u
id="$1"; shift
d="/verif/seeded/$id"
ddir=$(python3 -c "import json;print((json.load(open('$d/meta.json')).get('demonstration') or {}).get('package_dir','.'))" 2>/dev/null || echo .)
tname=$(grep -o 'func Test[A-Za-z0-9_]*' "$d/demo_test.go" | head -1 | sed 's/func //')
/verif/tools/seedtest.sh "$d/patch.diff" "$d/demo_test.go" "$ddir" "$tname" "$@" 2>&1 | grep -v WARNING | tee "$d/confirm.log"
python3 /verif/tools/mkmeta.py "$d" | grep -v WARNING
