#!/bin/bash
# tools/applies.sh: for every seeded/<id>/patch.diff find the newest commit of /repo to which it applies and
# record it as seeded/<id>/applies_to (a change seeded against an older tree can stop applying after a fix:
# detection results in meta.json refer to the tree of that commit).
set -u
wt=$(mktemp -d /tmp/applies-XXXXXX)
git -C /repo worktree add --detach "$wt" HEAD >/dev/null 2>&1
commits=$(git -C /repo log --format=%h -60)
for d in /verif/seeded/*/; do
  id=$(basename "$d"); found=""
  for c in $commits; do
    git -C "$wt" checkout -q "$c" 2>/dev/null
    if git -C "$wt" apply --check "$d/patch.diff" 2>/dev/null; then found=$c; break; fi
  done
  echo "${found:-none}" > "$d/applies_to"
  [ "$found" = "$(echo $commits | cut -d' ' -f1)" ] || echo "$id applies to ${found:-none} (not HEAD)"
done
git -C /repo worktree remove --force "$wt"
