#!/usr/bin/env python3
"""tools/mkmeta.py [seeded/<id> ...]: (re)write seeded/<id>/meta.json from notes.txt and confirm.log.

meta.json records which property the change breaks, what it needs in order to
manifest, what was run to confirm it (tools/seedtest.sh) and which registered
checks reported a VIOLATION on the changed copy."""
import json, os, re, sys, glob

root = os.path.dirname(os.path.dirname(os.path.abspath(__file__)))
dirs = sys.argv[1:] or sorted(glob.glob(os.path.join(root, "seeded", "*")))
for d in dirs:
    if not os.path.isdir(d):
        continue
    name = os.path.basename(d.rstrip("/"))
    prop = name.split("-")[0]
    notes = open(os.path.join(d, "notes.txt"), errors="replace").read() if os.path.exists(os.path.join(d, "notes.txt")) else ""
    lines = [l.rstrip() for l in notes.splitlines()]
    summary = next((l.strip() for l in lines if l.strip()), "")
    needs = []
    for i, l in enumerate(lines):
        if re.search(r"manifest|trigger|needed|needs", l, re.I):
            needs.append(l.strip())
            j = i + 1
            while j < len(lines) and lines[j].startswith("  ") and len(needs) < 6:
                needs.append(lines[j].strip())
                j += 1
        if len(needs) >= 6:
            break
    conf = open(os.path.join(d, "confirm.log"), errors="replace").read() if os.path.exists(os.path.join(d, "confirm.log")) else ""
    demo0 = "demo without change: pass" in conf
    demo1 = "demo with change: FAIL" in conf
    suite = "suite with change: pass" in conf
    caught, missed = [], []
    for m in re.finditer(r"^CHECK (C\d\d) rc=(\d+) violations=(\d+)", conf, re.M):
        (caught if m.group(2) == "1" and int(m.group(3)) > 0 else missed).append(m.group(1))
    tname = ""
    dt = os.path.join(d, "demo_test.go")
    if os.path.exists(dt):
        mm = re.search(r"func (Test[A-Za-z0-9_]*)", open(dt, errors="replace").read())
        tname = mm.group(1) if mm else ""
    meta = {
        "id": name,
        "breaks_property": prop,
        "summary": summary,
        "needs_to_manifest": " ".join(needs)[:1500],
        "files": sorted(set(re.findall(r"^\+\+\+ b/(\S+)", open(os.path.join(d, "patch.diff"), errors="replace").read(), re.M))),
        "demonstration": {"file": "demo_test.go", "test": tname,
                          "package_dir": "format" if re.search(r"^package format", open(dt, errors="replace").read(), re.M) else "."} if tname else None,
        "confirmed": {
            "how": "tools/seedtest.sh in a scratch copy of /repo under /tmp (removed afterwards): go test -vet=off -count=1 -run <demo> on the unchanged copy, then with patch.diff applied; go test -vet=off -count=1 ./... with the patch; then ./run <check> quick with VERIF_REPO pointing at the patched copy",
            "demo_passes_without_change": demo0,
            "demo_fails_with_change": demo1,
            "repo_suite_passes_with_change": suite,
        },
        "applies_to_repo_commit": (open(os.path.join(d, "applies_to")).read().strip() if os.path.exists(os.path.join(d, "applies_to")) else None),
        "checks_reporting_violation": caught,
        "checks_run_without_violation": missed,
    }
    json.dump(meta, open(os.path.join(d, "meta.json"), "w"), indent=1)
    print(name, "caught by", caught, "missed by", missed, "ok" if (demo0 and demo1 and suite) else "UNCONFIRMED")
