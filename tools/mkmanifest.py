#!/usr/bin/env python3
"""Regenerates /verif/MANIFEST.json from the table below.

A property is claimed when it appears in CHECKS; every other property of
properties.jsonl is listed under not_applicable with the reason in PENDING.
Run: python3 tools/mkmanifest.py   (validates against the schema when
python3-vt/jsonschema is available).
"""
import json, os, subprocess, sys

HERE = os.path.dirname(os.path.dirname(os.path.abspath(__file__)))

MC = "model_checking"

# id -> (category, text, design_ref, level_note, technique)
CHECKS = {}


def chk(pid, text, note, technique, design, category=MC):
    CHECKS[pid] = (category, text, design, note, technique)


COMMON_NOTE = ("Bounded scope: the token alphabets and lengths listed in the evidence "
               "(coverage.explorations); trees observed only through the public node API; "
               "Go toolchain and the checker's own oracles trusted. A panic raised inside the library "
               "during any execution is reported as a violation (kind library-panic).")

chk("C02",
    "Every input over each declared token alphabet up to the stated length is parsed by the real code and every node's span is checked "
    "against the statement (valid, inside Source and parent, siblings ordered and disjoint, root span shape, UTF-8 boundaries); inputs written with LF are also parsed with CRLF and with CR line endings. "
    "Exhaustive within the bounds, so a pass is a coverage statement, not a sample.",
    COMMON_NOTE,
    "stateless explicit enumeration (DFS by replay) of all bounded inputs against the real parser; invariant oracle on every execution",
    "DESIGN.md section 6, C02")
chk("C03",
    "Every bounded input is parsed by the real code and a cover-count array over each root block's Source must be <=1 everywhere and ==1 on every letter, digit and non-ASCII byte; only the text-carrying leaf kinds (Text, RawHTML, CharacterReference, SoftLineBreak, HardLineBreak, Indent) and list markers cover bytes, a childless container covers nothing; inputs written with LF are also parsed with CRLF and with CR line endings.",
    COMMON_NOTE,
    "stateless explicit enumeration of all bounded inputs against the real parser; cover-count invariant",
    "DESIGN.md section 6, C03")
chk("C05",
    "Every bounded input is parsed through Parse and through NextBlock+Extract+Rewrite and the resulting trees are checked against a table-driven transcription of the node grammar and accessor clauses of the statement (no nil child anywhere); inputs written with LF are also parsed with CRLF and with CR line endings.",
    COMMON_NOTE,
    "stateless explicit enumeration of all bounded inputs x 2 entry points; grammar invariant on every node",
    "DESIGN.md section 6, C05")
chk("C13",
    "Every bounded input is parsed and, for every node, the source text selected by its span is matched against the per-kind shape predicate of the statement; inputs written with LF are also parsed with CRLF and with CR line endings.",
    COMMON_NOTE + " Backslash hard break: span with or without the line ending is accepted (the statement allows both readings).",
    "stateless explicit enumeration of all bounded inputs; per-kind span-shape predicate on every node",
    "DESIGN.md section 6, C13")

chk("C01",
    "Every bounded input (and every member of the parametric families) is parsed through both entry points and the statement is checked literally: "
    "ordering, gap blankness, Source == input range with NUL replaced, 1-based StartLine against an independent line counter, aliasing of the caller's buffer and non-modification of it and of its spare capacity; inputs written with LF are also parsed (Parse, one full read, one-byte reads) with CRLF and with CR line endings.",
    COMMON_NOTE + " Streaming is driven with one full read, one-byte reads, every single-cut schedule and data-with-EOF reads here (plus documents beyond one and two read chunks under 9 read-size patterns); arbitrary schedules and reader faults are C08.",
    "stateless explicit enumeration of all bounded inputs x 2 entry points against the real parser; tiling/offset/line oracle written from the statement",
    "DESIGN.md section 6, C01")
chk("C08",
    "The real BlockParser is closed with a scripted io.Reader whose every answer (how many bytes, empty read, EOF with or without data, failure with one of two errors, with or without data) is a choice of the explorer. "
    "For small inputs every partition into reads is explored (no deviation bound); environment faults and, for longer inputs, partitions are explored up to a stated deviation bound. "
    "Every execution is compared with Parse of the delivered prefix on the full dump (Source, lines, offsets, trees, spans, reference map) and terminal-error persistence is checked on three further calls.",
    COMMON_NOTE + " Inputs far below the 1 MiB block limit; chunk size of the parser (8 KiB) exceeds every input so the reader alone decides read sizes.",
    "stateless model checking of the real streaming parser under a controlled environment: exhaustive enumeration of read schedules and reader fault points (deviation-bounded), differential oracle against in-memory parse",
    "DESIGN.md section 6, C08")

chk("C16",
    "Every bounded input is parsed; every root block outside the stated exception is re-parsed alone from its Source through NewBlockParser+Rewrite with the document's reference map, and must give exactly one block with an identical dump (kinds, accessors, spans, leaf text) that consumes all of Source; inputs written with LF are also judged with CRLF and with CR line endings.",
    COMMON_NOTE + " One known finding (setext heading continuing a paragraph that began with reference definitions) is listed by exact failing inputs in known/C16-setext-after-refdef.cases.",
    "stateless explicit enumeration of all bounded inputs x every root block; differential oracle document-parse vs stand-alone re-parse on the real code",
    "DESIGN.md section 6, C16")
chk("C18",
    "The real Walk is closed with callbacks whose every answer is a choice of the explorer: Pre nil or not, Post nil or not, six child views (default, virtual root, reversed, first-child-hidden, only-Child, only-ChildCount), the return value of Pre at every call (all prune sets for trees of <= 10 nodes, deviation-bounded above) and an abort at any Post call; every walk is followed by a second complete walk of the same tree, and wide/deep trees (31..257 children or levels) are walked with one pruned node or abort anywhere. "
    "Each execution's callback trace (event, node, parent, index, parent block) must equal that of a recursive reference traversal replaying the same decisions, and the cursor invariants are checked at every callback.",
    COMMON_NOTE,
    "stateless model checking of the real Walk under a controlled environment: exhaustive enumeration of callback policies (prune sets, abort points, nil-ness, child views) over all bounded trees; reference-model trace comparison",
    "DESIGN.md section 6, C18")

chk("C14",
    "Every CR-free bounded input x is parsed and rendered as x, crlf(x), cr(x) under all three soft-break modes (equal after mapping the variant's line-ending spelling to LF), with five blank prefixes (full dump equal, offsets and lines shifted by exactly the prefix), and with a final LF appended when missing (safe-mode HTML equal modulo insignificant whitespace).",
    COMMON_NOTE,
    "stateless explicit enumeration of all bounded inputs x {CRLF, CR, 5 paddings, +final newline} transformations; metamorphic equality oracle on the real parser and renderer",
    "DESIGN.md section 6, C14")

chk("C15",
    "All 256 bytes (and all 0x110000 code points for the Unicode predicates), every line up to the stated length over each recogniser's alphabet with every line-ending variant, every bounded string for NormalizeURI / IsEmailAddress / autolinks, and the parametric size families are run through the verif-tagged exports of the real recognisers and compared with regular definitions transcribed from the CommonMark 0.30 text; the same decisions are cross-checked through Parse on one-line documents.",
    "Bounded scope (alphabets, lengths in the evidence). Reference recognisers are self-tested against hand-transcribed spec examples before every run. Unicode categories from Go's tables on both sides. Known finding atx-backslash-space identified by an exact structural predicate.",
    "exhaustive enumeration of the recognisers' bounded input spaces (all bytes, all code points, all bounded lines) against reference regular definitions",
    "DESIGN.md section 6, C15")

chk("C07",
    "Every bounded input (general, injection and character-reference alphabets) is parsed and rendered by the real renderer with IgnoreRaw=true under the three soft-break behaviours, and with IgnoreRaw=false when the tree has no raw-HTML node, each also with FilterTag set (GFM, reject-nothing) and with a nil ReferenceMap; every output must be accepted by a strict scanner for the renderer's safe output language (fixed elements and attributes, proper nesting, single-space-separated quoted attributes, no raw < or \" where they could act, every & a well-formed character reference).",
    "Bounded scope (alphabets, lengths in the evidence). The scanner is self-tested on hand-written members/non-members before every run; the HTML5 entity table is generated from Python's html.entities.",
    "stateless explicit enumeration of all bounded inputs x 6 renderer configurations; output-language membership oracle (strict scanner)",
    "DESIGN.md section 6, C07")

chk("C10",
    "Every bounded input is parsed and its tree rendered by the real renderer under 36 configurations (3 soft-break behaviours x IgnoreRaw x 6 FilterTag predicates) and with a nil ReferenceMap; destinations over a URI alphabet are enumerated in links, images, definitions and autolinks; each output must equal, byte for byte (generated tags exactly, also under a tag predicate; only the '<' characters of raw HTML may be written either way when a predicate is set), an independent recursive reading of the tree through the public accessors; determinism, the Render/AppendBlock join law, dst-prefix preservation, silence of reference definitions, RenderHTML == default renderer, and an unchanged tree dump and Source are checked on the same executions.",
    "Bounded scope (alphabets, lengths in the evidence). The reference follows the library's documented escape sets and attribute order (calibration log in DESIGN.md, including what a generated end tag shows the predicate); which '<' of raw HTML a filter escapes is left to C17.",
    "stateless explicit enumeration of all bounded inputs x 36 renderer configurations; reference-model (direct tree reading) comparison on every execution",
    "DESIGN.md section 6, C10")

chk("C17",
    "Every bounded raw-HTML input (three alphabets - lexical, quoting/upper case, whole-tag tokens - with comments, CDATA, declarations, processing instructions, stray <, quotes, upper case) in three contexts, and every bounded inline input, is rendered by the real renderer without and with each of 5 predicates; the filtered output must be the unfiltered output with some '<' replaced by '&lt;' (two-pointer check), identical under a predicate that rejects nothing, and a WHATWG data-state tokenizer over it must emit no start tag whose name the predicate rejects (for the library's GFM predicate: the nine element names of the statement, all enumerated in 4 letter-case patterns x 10 tag shapes x 3 contexts, and in sequences of up to three equal-length allowed/rejected names in three letter-case patterns).",
    "Bounded scope (alphabets, lengths in the evidence). The tokenizer reference is self-tested before every run against x/net/html's tokenizer on 137k strings and on hand-written cases; no tree construction (data-state family only), as the property states.",
    "stateless explicit enumeration of all bounded inputs x 3 contexts x 5 predicates x 2 soft-break modes; reference HTML tokenizer as oracle over the real renderer's output",
    "DESIGN.md section 6, C17")

chk("C11",
    "Every string up to the stated length over the 5-symbol and the 8-symbol emphasis alphabets (non-ASCII punctuation, space and letter included) and, deeper, over the sub-alphabets {* _ a space} (11/13 symbols) and {* _ a} (13/16), and every sequence of 6/7 whole delimiter runs with built-in flanking context (openers, closers, both-flanking runs of * and _ of length 1-3), and every sequence of 8/9 delimiters, letters, spaces and complete inline links, that is a one-paragraph document (by the reference recognisers; others skipped and counted) is parsed and rendered by the real code and compared with an executable transcription of spec 6.2 flanking + the appendix's process-emphasis procedure without the openers_bottom optimisation.",
    "Bounded scope (lengths in the evidence). The reference is self-tested on the spec's emphasis examples that use no other syntax before every run.",
    "exhaustive enumeration of all bounded delimiter-run strings; reference-model (spec procedure) comparison on the real parser's rendered output",
    "DESIGN.md section 6, C11")

chk("C04",
    "Every bounded input and every member of the parametric families (deep nesting to 4096, long runs, unterminated constructs, invalid UTF-8, NUL, lone CR) goes through Parse, NextBlock+Extract+Rewrite, Render under 24 configurations, Format and Walk in a worker built with statement-level step counting. Oracle: no panic (recovered and attributed), no fatal error (worker death is re-run alone in a fresh process and attributed to the in-flight input), a deterministic step bound instead of a wall clock for 'loops forever', only io.EOF / nil errors with a healthy reader / writer.",
    "Bounded scope (alphabets, lengths, family sizes in the evidence). Step bound 10^7 + 10^3*len^2 instrumented statements per operation; measured maxima and their ratio to the bound are in the evidence. Loops inside uninstrumented dependencies are only caught by the watchdog.",
    "stateless explicit enumeration of all bounded inputs x 5 operations x 24 renderer configurations on the instrumented real code; totality oracle with deterministic fuel",
    "DESIGN.md section 6, C04")

chk("C12",
    "Three exhaustive explorations on the real parser: (a) every ordered pair of bounded use/definition labels (case pairs, multi-character folds, label whitespace incl. line endings, NBSP, escaped brackets; a second alphabet with NUL runs) in a document using the label as shortcut, collapsed, full reference and image - resolves iff the reference normal forms are equal and both labels valid; (b) every sequence of up to 4 segments with one use and 1-3 competing definitions (plain, in quote, in list item, nested, two in one paragraph, or inside one root container holding a tree of quotes and items with definitions at different depths) - the first in source order supplies href/title and is the map's only entry; (b') every paragraph that begins with a label and a colon followed by up to 6/7 tokens of destination, title, label, colon, text and white-space material, against a transcription of the definition grammar of spec 4.7 (number of definitions, their destinations and titles, remaining paragraph text, reference map); (b'') every flat sequence of up to 7 bracket pairs with a defined label, an undefined label and no label, inline tails, exclamation marks, text and spaces, read by spec 6.3 (inline / full / collapsed / shortcut / image / text), and every sequence of up to 8/9 openers, closers, inline tails and words with arbitrary nesting, against a transcription of the look-for-link-or-image procedure of the spec's appendix; (c) closure laws on all bounded inputs of four general spaces (every reference node names a map key, keys in normal form, map == fresh Extract over the blocks == streaming pipeline's map).",
    "Bounded scope (alphabet and lengths in the evidence). Reference normalisation uses a hand-written full-case-folding table for the alphabet's characters (self-tested), not x/text.",
    "exhaustive enumeration of bounded label pairs, definition placements/orders and inputs; reference-model (spec 6.3 normalisation, first-wins) comparison on the real parser",
    "DESIGN.md section 6, C12")

chk("C19",
    "Part 1: the two packages are rebuilt with a generated overlay that calls a hook before every statement; under a cooperative scheduler exactly one harness thread runs and every hook call is a scheduling point at which the explorer may preempt. Package sync is replaced by a scheduler-aware stand-in in that build (blocked threads hand over, deadlocks and spin-waits are detected, pools are deterministic). For every multiset of 2 (thorough: 3) operations out of Parse of four documents, Render through one shared HTMLRenderer, Render through own renderers, Format and Walk on one shared tree, and streaming parse + Rewrite through one shared InlineParser value, all schedules within the preemption bound are enumerated (bound 1 at statement granularity, bound 2 at first-function-entry granularity; thorough: bound 2 fine, bound 3 coarse, triples); each thread's result must equal its sequential result and the shared tree must be unchanged. "
    "Part 2: the same thread bodies run free under the race detector in a separate -race build, one fresh process per operation pair (cold lazily-built state), plus the 652 spec examples parsed/rendered/formatted/walked on 2 and 8 goroutines and each tree worked on by four goroutines at once; any report or result differing from the sequential one is a violation.",
    "Statement granularity, small harness inputs; paths the harness does not execute and memory-model effects below statement granularity are outside part 1. The race clause relies on Go's race detector and is not a schedule enumeration (labelled as such in the evidence).",
    "stateless model checking of the real code under a controlled cooperative scheduler (preemption-bounded enumeration of thread interleavings, CHESS-style) + separate free-running race-detector pass",
    "DESIGN.md section 6, C19; section 2.3")

chk("C06",
    "The driver is a nondeterministic generator: it chooses an abstract document (block skeletons of <= 4 nodes; inline sequences from a 31-atom menu in 8 composition contexts; all escaped texts of <= 3 characters over letter/space/32 punctuation characters; code-block contents from a menu of fence-like lines; container chains to depth 5-6; trees of nested tight/loose lists; escaped link titles and destinations; numeric character references at their digit limits; raw tags, comments, processing instructions, declarations and CDATA sections over three raw-HTML alphabets, judged against a transcription of the grammar of spec 6.6; HTML block start and end conditions (spec 4.6) over documents from a 31-line menu and all element names of conditions 1 and 6; inline link tails over an 11-token alphabet against the definitions of destination, title and inline link (spec 6.3); code spans (6.1) and hard/soft line breaks (6.7, 6.8) over their own alphabets; list items that begin with a blank line (5.2 rule 3); every named character reference of the HTML5 table; pairs of sibling paragraphs inside one container against the same paragraphs parsed alone) and then every spelling the serializer is allowed (bullet and delimiter characters, marker padding 1-4, tab where a tab stop makes it equal, fence character/length, ATX closing sequence, setext underline length, quote marker variants (also differing from line to line), title quoting, destination form, hard-break spelling, escaping style, LF/CRLF) within a deviation bound; the real Parse+RenderHTML output must equal the document's denotation through ref.Norm. A guard that re-reads every line with the reference recognisers rejects (and counts) documents it cannot prove unambiguous.",
    "Bounded scope (node/atom/deviation bounds in the evidence). The abstract model, denotation and serializer are the trusted base (Appendix A of DESIGN.md), self-tested against spec examples their canonical spellings coincide with. Lazy continuation lines are generated for paragraphs (one lazy line per container as a spelling deviation); block indentation of 1-3 columns and most tab spellings are not generated.",
    "stateless model checking of a closed generator-serializer-parser-renderer system: exhaustive enumeration of abstract documents x deviation-bounded serializer spellings; reference denotation as oracle",
    "DESIGN.md section 6, C06; Appendix A")
chk("C09",
    "Every tab-free bounded input D is quoted with each of 4 block quote marker spellings and, when admissible, indented under each of 7 list markers with N=1..4; every variant must parse to exactly one block quote / one one-item list whose safe-mode rendering is D's rendering wrapped (through ref.Norm, modulo renderer-made <p> for the tight one-item list), whose raw HTML (rendering with raw tags for quotes; the tree's tag and HTML-block text for lists) is D's, with an equal reference map; documents with brackets are also judged with CRLF and with CR line endings.",
    COMMON_NOTE,
    "stateless explicit enumeration of all bounded inputs x 32 container transformations; metamorphic oracle on the real parser and renderer",
    "DESIGN.md section 6, C09")
chk("C20",
    "First clause: the real Format is closed with a scripted writer (with and without WriteString) that may fail at any one write call, with no data taken or (writer without WriteString) after one byte was taken; every fault point of every bounded input is one execution (returned error must be that writer's error, no write after it), the fault-free execution checks nil error, determinism, equality across writer kinds and an unchanged tree. Second clause: every canonical-style document of the supported construct set S_fmt (block skeletons, inline sequences, escaped texts of up to three characters over the 32 punctuation characters, nested-list trees, container chains and code-block contents of the C06 generator in canonical spelling) is formatted, re-parsed and compared on rendered HTML, and re-formatted for byte equality.",
    "Bounded scope (alphabets, lengths, document sizes in the evidence). S_fmt is fixed in DESIGN.md section 6 (C20); documents outside it are counted, not judged.",
    "fault enumeration over a controlled writer (every write-call fault point) + exhaustive enumeration of canonical documents with a round-trip oracle",
    "DESIGN.md section 6, C20", "fault_enumeration")

# Reasons for properties not (yet) claimed.
PENDING = {}


def main():
    props = [json.loads(l) for l in open(os.path.join(HERE, "properties.jsonl"))]
    extra = os.path.join(HERE, "tools", "manifest_checks.py")
    if os.path.exists(extra):
        exec(open(extra).read(), globals())
    checks, na = [], []
    for p in props:
        pid = p["id"]
        if pid in CHECKS:
            cat, text, design, note, tech = CHECKS[pid]
            checks.append({
                "property_id": pid,
                "quick_cmd": "./run %s quick" % pid,
                "thorough_cmd": "./run %s thorough" % pid,
                "evidence_file": "/verif/evidence/%s.json" % pid,
                "replay_cmd_template": "./run replay {path}",
                "engine": "mc",
                "level_claimed": {"category": cat, "text": text, "design_ref": design},
                "level_note": note,
                "technique": tech,
            })
        else:
            na.append({"property_id": pid, "reason": PENDING.get(pid, "check not built yet in this round; the design (DESIGN.md section 6) decides it by bounded exhaustive exploration, nothing is claimed for it until the check exists and passes on the unchanged tree")})
    m = {
        "version": 1,
        "setup_cmd": "./run setup",
        "hooks": {
            "guard": "verif (Go build tag)",
            "enable": "go build -tags verif (./run builds the checker against /repo's working tree through a replace directive); statement-level instrumentation for C04/C19 is generated at check time into an overlay outside /repo",
            "baseline_off_cmd": "cd /repo && go test -mod=mod -json -vet=off -count=1 -timeout 25m ./...",
            "source_commits": ["ac23197", "184d026"],
            "add_only": True,
        },
        "engines": [
            {"name": "mc", "path": "/verif/mc", "serves_properties": sorted(CHECKS),
             "kind_free_text": "hand-written stateless model checker: depth-first exploration by replay of every choice sequence of a closed driver around the real code (scope-bounded input choices, deviation-bounded environment answers), sharded over 16 worker processes"},
        ],
        "checks": checks,
        "not_applicable": na,
        "notes": "All checks rebuild from /repo's working tree (VERIF_REPO overrides the path for scratch worktrees). Exit 0 = held on everything explored, 1 = VIOLATION line, 2 = framework error. Known findings: /verif/known_findings.txt.",
    }
    out = os.path.join(HERE, "MANIFEST.json")
    json.dump(m, open(out, "w"), indent=1)
    open(out, "a").write("\n")
    print("wrote", out, "claimed:", " ".join(sorted(CHECKS)), "| not claimed:", " ".join(x["property_id"] for x in na))


if __name__ == "__main__":
    main()
