#!/usr/bin/env python3-vt
import json, sys, glob, jsonschema
m = json.load(open('/verif/MANIFEST.json'))
jsonschema.validate(m, json.load(open('/root/.vp/MANIFEST.schema.json')))
es = json.load(open('/root/.vp/EVIDENCE.schema.json'))
bad = 0
for c in m['checks']:
    try:
        e = json.load(open(c['evidence_file']))
        jsonschema.validate(e, es)
        assert e['level'] == c['level_claimed']['category'], 'level mismatch'
        print(c['property_id'], 'ok', e['tier'], 'evals', e['coverage'].get('evaluations'), 'exh', e['coverage'].get('exhaustive'), 'wall', round(e['wall_s'],1))
    except Exception as ex:
        bad += 1
        print(c['property_id'], 'BAD', str(ex)[:300])
sys.exit(1 if bad else 0)
