#!/usr/bin/env python3
"""tools/mkdetect.py: regenerate the detection table of DESIGN.md section 16 (between the markers) from seeded/*/meta.json."""
import json, glob, os, re
root = os.path.dirname(os.path.dirname(os.path.abspath(__file__)))
rows = []
for f in sorted(glob.glob(os.path.join(root, "seeded", "*", "meta.json"))):
    m = json.load(open(f))
    s = re.sub(r"^\s*[mM]\d\s*(--|—|-|:)\s*", "", m["summary"]).replace("|", "/")
    if len(s) > 170:
        s = s[:167] + "..."
    ok = m["confirmed"]["demo_passes_without_change"] and m["confirmed"]["demo_fails_with_change"] and m["confirmed"]["repo_suite_passes_with_change"]
    rows.append("| %s | %s | %s | %s | %s |" % (m["id"], ", ".join(m["files"]), s, ", ".join(m["checks_reporting_violation"]) or "none", ", ".join(m["checks_run_without_violation"]) or "-") + ("" if ok else " (unconfirmed)"))
table = "| change | file | what it does | quick checks that report a VIOLATION | run without a violation |\n|---|---|---|---|---|\n" + "\n".join(rows) + "\n"
p = os.path.join(root, "DESIGN.md")
s = open(p).read()
a, b = "<!-- detect-table-begin -->\n", "<!-- detect-table-end -->"
i, j = s.index(a) + len(a), s.index(b)
open(p, "w").write(s[:i] + table + s[j:])
print(len(rows), "rows")
